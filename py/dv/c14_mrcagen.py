"""C14 translator (used by gen_pdm.py): the argument handling / refresh part of Tree.mrca and
treemeasure.patristic_distance -> Gallina over coq/Model/C14GenMrcaPrims.v.

Tree.mrca(**kwargs): the keyword arguments are a record of optional values (kw_start_node,
kw_leafset_bitmask, kw_taxa, kw_taxon_labels, kw_is_bipartitions_updated); `"k" in kwargs`, `kwargs["k"]`,
`kwargs.get("k", default)` are compiled from the AST.  self is the model's tree object (structure, rooting
flag, the leafset bitmask stored on every edge); self.taxon_namespace.get_taxa / taxa_bitmask and
self.encode_bipartitions are interface calls (their models are C14Model.get_taxa / taxa_bitmask / encode).
Everything up to the test of the start node's bitmask is compiled here; the rest is Tree_mrca_descent.
"""
import ast
import re


class Unsupported(Exception):
    pass


KW = {"start_node": "kw_start_node", "leafset_bitmask": "kw_leafset_bitmask", "taxa": "kw_taxa",
      "taxon_labels": "kw_taxon_labels", "is_bipartitions_updated": "kw_is_bipartitions_updated"}
KW_TY = {"start_node": "node", "leafset_bitmask": "mask", "taxa": "taxa", "taxon_labels": "labels", "is_bipartitions_updated": "bool"}
OPT = {"mask": "omask", "taxa": "otaxa"}
COQ = {"node": "Z", "mask": "Z", "omask": "(option Z)", "taxa": "(list Z)", "otaxa": "(option (list Z))", "labels": "(list Z)",
       "bool": "bool", "int": "Z"}


def const_str(e):
    return e.value if isinstance(e, ast.Constant) and isinstance(e.value, str) else None


class MC:
    def __init__(self):
        self.tmp = 0

    def fresh(self, b):
        self.tmp += 1
        return "%s_%d" % (b, self.tmp)

    def expr(self, e, env):
        """-> (binds, text, type)"""
        if isinstance(e, ast.Name):
            if e.id not in env:
                raise Unsupported("unbound %s" % e.id)
            return [], e.id, env[e.id]
        if isinstance(e, ast.Constant) and isinstance(e.value, int) and not isinstance(e.value, bool):
            return [], "%d" % e.value, "int"
        if isinstance(e, ast.Call):
            f = e.func
            # kwargs.get("k", default)
            if isinstance(f, ast.Attribute) and isinstance(f.value, ast.Name) and f.value.id == "kwargs" and f.attr == "get" \
                    and len(e.args) == 2 and const_str(e.args[0]) in KW:
                k, d = const_str(e.args[0]), e.args[1]
                fld = "(%s kw)" % KW[k]
                if isinstance(d, ast.Constant) and d.value is None:
                    if KW_TY[k] not in OPT:
                        raise Unsupported("kwargs.get(%r, None)" % k)
                    return [], fld, OPT[KW_TY[k]]
                if isinstance(d, ast.Constant) and isinstance(d.value, bool) and KW_TY[k] == "bool":
                    return [], "(kw_default %s %s)" % (fld, "true" if d.value else "false"), "bool"
                if isinstance(d, ast.Attribute) and isinstance(d.value, ast.Name) and d.value.id == "self" and d.attr == "seed_node" \
                        and KW_TY[k] == "node":
                    return [], "(kw_default %s (t_id (mt_tree self)))" % fld, "node"
                raise Unsupported("default of kwargs.get(%r, ...)" % k)
            if isinstance(f, ast.Name) and f.id == "len" and len(e.args) == 1:
                b, t, y = self.value(e.args[0], env)
                if y not in ("taxa", "labels"):
                    raise Unsupported("len of %s" % y)
                return b, "(py_len %s)" % t, "int"
            # self.taxon_namespace.get_taxa(labels=..) / taxa_bitmask(taxa=..)
            if isinstance(f, ast.Attribute) and isinstance(f.value, ast.Attribute) and f.value.attr == "taxon_namespace" \
                    and isinstance(f.value.value, ast.Name) and f.value.value.id == "self" and not e.args and len(e.keywords) == 1:
                kwd = e.keywords[0]
                b, t, y = self.value(kwd.value, env)
                if f.attr == "get_taxa" and kwd.arg == "labels" and y == "labels":
                    return b, "(get_taxa ns %s)" % t, "taxa"
                if f.attr == "taxa_bitmask" and kwd.arg == "taxa" and y == "taxa":
                    v = self.fresh("mask")
                    return b + [(v, "taxa_bitmask ns %s 0" % t)], v, "mask"
            raise Unsupported("call %s" % ast.unparse(e)[:60])
        if isinstance(e, ast.Subscript) and isinstance(e.value, ast.Name) and e.value.id == "kwargs" and const_str(e.slice) in KW:
            k = const_str(e.slice)
            v = self.fresh(k)
            return [(v, "kw_item (%s kw)" % KW[k])], v, KW_TY[k]
        if isinstance(e, ast.Attribute) and ast.unparse(e).endswith(".edge.bipartition.leafset_bitmask"):
            b, t, y = self.expr(e.value.value.value, env)
            if y != "node":
                raise Unsupported("bitmask of %s" % y)
            return b, "(enc_get (mt_enc self) %s)" % t, "mask"
        if isinstance(e, ast.BinOp) and isinstance(e.op, ast.BitAnd):
            lb, lt, ly = self.value(e.left, env)
            rb, rt, ry = self.value(e.right, env)
            if (ly, ry) != ("mask", "mask"):
                raise Unsupported("& on %s, %s" % (ly, ry))
            return lb + rb, "(Z.land %s %s)" % (lt, rt), "mask"
        if isinstance(e, ast.Compare) and len(e.ops) == 1:
            op = type(e.ops[0]).__name__
            l, r = e.left, e.comparators[0]
            if op == "In" and const_str(l) in KW and isinstance(r, ast.Name) and r.id == "kwargs":
                return [], "(kw_has (%s kw))" % KW[const_str(l)], "bool"
            if op in ("Is", "IsNot") and isinstance(r, ast.Constant) and r.value is None:
                b, t, y = self.expr(l, env)
                if y not in ("omask", "otaxa"):
                    raise Unsupported("None test on %s" % y)
                tt = "(match %s with None => true | Some _ => false end)" % t
                return b, (tt if op == "Is" else "(negb %s)" % tt), "bool"
            if op in ("Eq", "NotEq"):
                lb, lt, ly = self.expr(l, env)
                rb, rt, ry = self.expr(r, env)
                if ly == "omask" and ry == "int":       # x == 0 where x may be None: None == 0 is False
                    tt = "(match %s with None => false | Some v_ => Z.eqb v_ %s end)" % (lt, rt)
                elif ly in ("mask", "int", "omask") and ry in ("mask", "int", "omask"):
                    lb2, lt = self.unwrap(lb, lt, ly)
                    rb2, rt = self.unwrap(rb, rt, ry)
                    lb, rb = lb2, rb2
                    tt = "(Z.eqb %s %s)" % (lt, rt)
                else:
                    raise Unsupported("== on %s, %s" % (ly, ry))
                return lb + rb, (tt if op == "Eq" else "(negb %s)" % tt), "bool"
            raise Unsupported("comparison %s" % ast.unparse(e)[:60])
        if isinstance(e, ast.BoolOp) and isinstance(e.op, ast.Or):
            parts = [self.expr(v, env) for v in e.values]
            if any(p[0] for p in parts[1:]) or any(p[2] != "bool" for p in parts):
                raise Unsupported("raising / non-boolean operand of `or`")
            return parts[0][0], "(" + " || ".join(p[1] for p in parts) + ")", "bool"
        if isinstance(e, ast.UnaryOp) and isinstance(e.op, ast.Not):
            b, t, y = self.expr(e.operand, env)
            if y != "bool":
                raise Unsupported("not on %s" % y)
            return b, "(negb %s)" % t, "bool"
        raise Unsupported("expression %s" % ast.unparse(e)[:60])

    def unwrap(self, b, t, y):
        if y in ("omask", "otaxa"):
            v = self.fresh("val")
            return b + [(v, "py_unwrap %s" % t)], v
        return b, t

    def value(self, e, env):
        """an expression used as a value: a variable that may be None is unwrapped (TypeError)"""
        b, t, y = self.expr(e, env)
        if y in ("omask", "otaxa"):
            b, t = self.unwrap(b, t, y)
            y = {"omask": "mask", "otaxa": "taxa"}[y]
        return b, t, y


def with_binds(binds, body):
    for n, t in reversed(binds):
        body = "do %s <- %s ;;\n%s" % (n, t, body)
    return body


def assigned(ss):
    out = []
    for s in ss:
        for n in ast.walk(s):
            if isinstance(n, ast.Assign):
                for t in n.targets:
                    if isinstance(t, ast.Name) and t.id not in out:
                        out.append(t.id)
    return out


def raises(ss):
    return bool(ss) and isinstance(ss[-1], ast.Raise)


ERRS = {"TypeError": "TypeErr", "ValueError": "ValueErr", "KeyError": "KeyErr"}


def stmts(mc, ss, env, kont):
    if not ss:
        return kont(env)
    s, rest = ss[0], ss[1:]
    nxt = lambda e2: stmts(mc, rest, e2, kont)
    if isinstance(s, ast.Raise):
        name = s.exc.func.id if isinstance(s.exc, ast.Call) else s.exc.id
        if name not in ERRS:
            raise Unsupported("raise %s" % name)
        return "Err %s" % ERRS[name]
    if isinstance(s, ast.If) and not s.orelse and len(s.body) == 1 and isinstance(s.body[0], ast.Expr) \
            and ast.unparse(s.body[0]).startswith("warnings.warn(") and ast.unparse(s.test) == "not self.is_rooted":
        return nxt(env)                    # a warning: no effect on the result
    if isinstance(s, ast.Assign) and len(s.targets) == 1 and isinstance(s.targets[0], ast.Name):
        name = s.targets[0].id
        if isinstance(s.value, ast.Constant) and s.value.value is None:
            last = None
            for cand in ("omask", "otaxa"):
                try:
                    e2 = dict(env)
                    e2[name] = cand
                    return "let %s := (@None %s) in\n%s" % (name, COQ[cand][8:-1], nxt(e2))
                except Unsupported as ex:
                    last = ex
            raise Unsupported("no type fits %s = None (%s)" % (name, last))
        b, t, y = mc.expr(s.value, env)
        if name in env and env[name] in ("omask", "otaxa"):
            if {"omask": "mask", "otaxa": "taxa"}[env[name]] != y and env[name] != y:
                raise Unsupported("%s := %s" % (env[name], y))
            t = t if env[name] == y else "(Some %s)" % t
            return with_binds(b, "let %s := %s in\n%s" % (name, t, nxt(env)))
        e2 = dict(env)
        e2[name] = y
        return with_binds(b, "let %s := %s in\n%s" % (name, t, nxt(e2)))
    if isinstance(s, ast.Expr) and isinstance(s.value, ast.Call) and ast.unparse(s.value.func) == "self.encode_bipartitions":
        kw = {k.arg: k.value for k in s.value.keywords}
        if s.value.args or set(kw) != {"suppress_unifurcations"} or not (isinstance(kw["suppress_unifurcations"], ast.Constant)
                                                                         and kw["suppress_unifurcations"].value is False):
            raise Unsupported("encode_bipartitions arguments")
        return "do self <- encode ns self ;;\n%s" % nxt(env)
    if isinstance(s, ast.If):
        b, c, y = mc.expr(s.test, env)
        if y != "bool":
            raise Unsupported("if on %s" % y)
        if raises(s.body) and not s.orelse:
            return with_binds(b, "if %s\nthen %s\nelse %s" % (c, stmts(mc, list(s.body), env, kont), nxt(env)))
        # the variables (re)bound by the statement flow out of it; `self` too when a branch refreshes the tree
        out = [n for n in assigned(list(s.body) + list(s.orelse)) if n in env]
        if any("encode_bipartitions" in ast.unparse(x) for x in list(s.body) + list(s.orelse)):
            out.append("self")
        if not out:
            raise Unsupported("if without effect")
        pat = out[0]
        for n in out[1:]:
            pat = "(%s, %s)" % (pat, n)
        fin = lambda e: "Ok %s" % pat
        ka = stmts(mc, list(s.body), env, fin)
        kb = stmts(mc, list(s.orelse), env, fin)
        r = mc.fresh("st")
        return with_binds(b, "do %s <- (if %s\nthen %s\nelse %s) ;;\nlet '%s := %s in\n%s" % (r, c, ka, kb, pat, r, nxt(env)))
    raise Unsupported("statement %s" % ast.unparse(s)[:60])


def compile_mrca_head(fdef):
    body = [s for s in fdef.body if not (isinstance(s, ast.Expr) and isinstance(s.value, ast.Constant))]
    if fdef.args.kwarg is None or fdef.args.kwarg.arg != "kwargs" or len(fdef.args.args) != 1:
        raise Unsupported("Tree.mrca signature")
    # the head ends with the statement that may refresh the bipartitions
    end = None
    for i, s in enumerate(body):
        if isinstance(s, ast.If) and "encode_bipartitions" in ast.unparse(s):
            end = i
    if end is None:
        raise Unsupported("Tree.mrca: no refresh statement")
    mc = MC()

    def kont(env):
        if env.get("start_node") != "node" or env.get("leafset_bitmask") not in ("omask", "mask"):
            raise Unsupported("Tree.mrca: start_node / leafset_bitmask not bound")
        return ("do mask_ <- py_unwrap leafset_bitmask ;;\n"
                "do node_ <- py_node_object self0 self start_node ;;\n"
                "do r_ <- Tree_mrca_descent fuel (mt_enc self) mask_ node_ ;;\n"
                "Ok (option_map t_id r_, self)")
    code = stmts(mc, body[:end + 1], {}, kont)
    return ("(* Tree.mrca, keyword arguments: argument handling, refresh of the bipartitions, then the descent *)\n"
            "Definition Tree_mrca (fuel : nat) (ns : nspace) (self : mtree) (kw : mrca_kwargs) : res (option Z * mtree) :=\n"
            "let self0 := self in\n%s." % code)


def compile_patristic(fdef):
    """treemeasure.patristic_distance(tree, taxon1, taxon2, is_bipartitions_updated=False), statement by statement.
    State: the tree object (tree.mrca may refresh it), the distance accumulated, the node variable of a walk."""
    body = [s for s in fdef.body if not (isinstance(s, ast.Expr) and isinstance(s.value, ast.Constant))]
    args = [a.arg for a in fdef.args.args]
    if args != ["tree", "taxon1", "taxon2", "is_bipartitions_updated"]:
        raise Unsupported("patristic_distance signature")
    env = {"taxon1": "tax", "taxon2": "tax", "is_bipartitions_updated": "bool"}
    defs = []
    nloop = [0]

    def val(e):
        """taxon / bool / list-of-taxa / int expressions"""
        if isinstance(e, ast.Name) and e.id in env:
            return e.id, env[e.id]
        if isinstance(e, ast.Constant) and isinstance(e.value, int) and not isinstance(e.value, bool):
            return "%d" % e.value, "len"
        if isinstance(e, ast.List):
            xs = [val(x) for x in e.elts]
            if any(y != "tax" for _, y in xs):
                raise Unsupported("list of %s" % [y for _, y in xs])
            return "[%s]" % "; ".join(t for t, _ in xs), "taxa"
        raise Unsupported("value %s" % ast.unparse(e))

    def walk_test(e, nvar):
        # n != mrca / n == mrca : comparison of a node (or None) with the node tree.mrca returned (or None)
        if isinstance(e, ast.Compare) and len(e.ops) == 1 and isinstance(e.left, ast.Name) and e.left.id == nvar \
                and isinstance(e.comparators[0], ast.Name) and env.get(e.comparators[0].id) == "onodeid":
            t = "(py_node_eq n_ %s)" % e.comparators[0].id
            if isinstance(e.ops[0], ast.NotEq):
                return "(negb %s)" % t
            if isinstance(e.ops[0], ast.Eq):
                return t
        raise Unsupported("walk test %s" % ast.unparse(e))

    def walk_body(ss, nvar, acc):
        """statements of the loop body over the state (n_ : option node, acc : Z); nd_ = the node n_ refers to"""
        code = ""
        for s in ss:
            if isinstance(s, ast.If) and not s.orelse and isinstance(s.test, ast.Compare) and len(s.test.ops) == 1 \
                    and isinstance(s.test.comparators[0], ast.Constant) and s.test.comparators[0].value is None \
                    and ast.unparse(s.test.left) == "%s.edge.length" % nvar and len(s.body) == 1 \
                    and isinstance(s.body[0], ast.AugAssign) and isinstance(s.body[0].target, ast.Name) and s.body[0].target.id == acc \
                    and ast.unparse(s.body[0].value) == "%s.edge.length" % nvar:
                sym = {"Add": "+", "Sub": "-"}.get(type(s.body[0].op).__name__)
                if sym is None:
                    raise Unsupported("accumulation operator")
                upd, keep = "%s %s l_" % (acc, sym), acc
                if isinstance(s.test.ops[0], ast.IsNot):
                    code += "do nd_ <- py_deref n_ ;;\nlet %s := match node_edge_length nd_ with Some l_ => %s | None => %s end in\n" % (acc, upd, keep)
                elif isinstance(s.test.ops[0], ast.Is):
                    raise Unsupported("arithmetic with None")
                else:
                    raise Unsupported("test operator")
            elif isinstance(s, ast.Assign) and len(s.targets) == 1 and isinstance(s.targets[0], ast.Name) and s.targets[0].id == nvar \
                    and ast.unparse(s.value) == "%s.parent_node" % nvar:
                code += "do nd_ <- py_deref n_ ;;\nlet n_ := py_parent_node G nd_ in\n"
            else:
                raise Unsupported("walk statement %s" % ast.unparse(s)[:60])
        return code + "Ok (n_, %s)" % acc

    code = ""
    i = 0
    acc = None
    while i < len(body):
        s = body[i]
        if isinstance(s, ast.Return):
            if i != len(body) - 1 or not isinstance(s.value, ast.Name) or env.get(s.value.id) != "len":
                raise Unsupported("return shape")
            code += "Ok (%s, tree_)" % s.value.id
            break
        if isinstance(s, ast.Assign) and len(s.targets) == 1 and isinstance(s.targets[0], ast.Name):
            name = s.targets[0].id
            v = s.value
            if isinstance(v, ast.Call) and ast.unparse(v.func) == "tree.mrca" and not v.args:
                fields = {k: "None" for k in KW}
                for k in v.keywords:
                    if k.arg not in KW:
                        raise Unsupported("tree.mrca keyword %s" % k.arg)
                    t, y = val(k.value)
                    if y != {"taxa": "taxa", "is_bipartitions_updated": "bool", "leafset_bitmask": "mask", "taxon_labels": "labels"}.get(k.arg):
                        raise Unsupported("tree.mrca(%s=<%s>)" % (k.arg, y))
                    fields[k.arg] = "(Some %s)" % t
                code += ("do r_ <- Tree_mrca fuel ns tree_ (mkKw %s) ;;\nlet '(%s, tree_) := r_ in\n"
                         % (" ".join(fields[k] for k in KW), name))
                env[name] = "onodeid"
            elif isinstance(v, ast.Call) and ast.unparse(v.func) == "tree.find_node" and len(v.args) == 1 and isinstance(v.args[0], ast.Lambda):
                lam = v.args[0]
                x = lam.args.args[0].arg
                b = lam.body
                if not (isinstance(b, ast.Compare) and len(b.ops) == 1 and isinstance(b.ops[0], ast.Eq)
                        and ast.unparse(b.left) == "%s.taxon" % x and isinstance(b.comparators[0], ast.Name)
                        and env.get(b.comparators[0].id) == "tax"):
                    raise Unsupported("find_node predicate")
                code += "let %s := py_find_node_taxon (mt_tree tree_) %s in\n" % (name, b.comparators[0].id)
                env[name] = "onode"
            else:
                t, y = val(v)
                code += "let %s := %s in\n" % (name, t)
                env[name] = y
            i += 1
            continue
        if isinstance(s, ast.While) and not s.orelse:
            nvar = s.test.left.id if isinstance(s.test, ast.Compare) and isinstance(s.test.left, ast.Name) else None
            if env.get(nvar) != "onode":
                raise Unsupported("while over %s" % nvar)
            accs = [n for n in assigned_aug(s.body) if env.get(n) == "len"]
            if len(accs) != 1:
                raise Unsupported("walk accumulators %s" % accs)
            acc = accs[0]
            nloop[0] += 1
            nm = "TM_walk%d" % nloop[0]
            mparam = s.test.comparators[0].id
            defs.append("Definition %s_test (%s : option Z) (s_ : option tree * Z) : bool :=\nlet '(n_, %s) := s_ in %s."
                        % (nm, mparam, acc, walk_test(s.test, nvar)))
            defs.append("Definition %s_body (G : tree) (s_ : option tree * Z) : res (option tree * Z) :=\nlet '(n_, %s) := s_ in\n%s."
                        % (nm, acc, walk_body(s.body, nvar, acc)))
            code += ("do st_ <- py_while fuel (%s_test %s) (%s_body (mt_tree tree_)) (%s, %s) ;;\nlet '(%s, %s) := st_ in\n"
                     % (nm, mparam, nm, nvar, acc, nvar, acc))
            i += 1
            continue
        raise Unsupported("statement %s" % ast.unparse(s)[:60])
    main = ("(* treemeasure.patristic_distance(tree, taxon1, taxon2, is_bipartitions_updated) *)\n"
            "Definition TM_patristic_distance (fuel : nat) (ns : nspace) (tree_ : mtree) (taxon1 taxon2 : Z) "
            "(is_bipartitions_updated : bool) : res (Z * mtree) :=\n%s." % code)
    return "\n\n".join(defs + [main])


def assigned_aug(ss):
    out = []
    for s in ss:
        for n in ast.walk(s):
            if isinstance(n, ast.AugAssign) and isinstance(n.target, ast.Name) and n.target.id not in out:
                out.append(n.target.id)
    return out
