"""C17 - histories on ONE tree object: queries, then edits of the edge lengths, then the same
queries again.  Every anchored method must answer for the tree in its CURRENT state (no stale
root_distance / age attributes may be reused), so the model is evaluated on the tree as dumped at the
moment of each query group, and the oracle recomputes from those current lengths.

case = {"kind": "hist", "tree": spec, "steps": [step, ...]}
  step = ["query", {"xs": [...], "ages": [[prec, fmax, fmin, internal_only], ...], "treeness": bool, "gamma": [prec, ...]}]
       | ["scale", k]                       tree.scale_edges(k)          (k a power of two)
       | ["assign", [[node id, units], ..]] node.edge.length = units * UNIT
       | ["setlen", min_units | None]       calc_node_ages(check off) ; set_edge_lengths_from_node_ages(min)
       | ["slide", node id, units]          move an internal node towards the tips: its edge + units, its children's - units
                                            (skipped unless every child edge stays positive): ultrametricity is kept
       | ["reroot", node id]                tree.reroot_at_node(node, suppress_unifurcations=False)
       | ["rootdist"] | ["maxdist"] | ["minmax"]    calls that leave root_distance attributes behind
       | ["calcages", prec]                 a call that leaves age attributes behind (exceptions ignored)
"""
import copy
import math
from fractions import Fraction

from dv import core, trees
from dv.core import cz, cbool, clist, copt, cpair

UNIT = trees.UNIT

KEY_GAMMA_STALE = "gamma-stale-ages-after-edit"


def gen_hist_case(rng, maxleaves, c17, with_stale_gamma):
    n = rng.randint(2, maxleaves)
    t = c17.gen_ultrametric(rng, n, shape=rng.choice(["binary", "binary", "mixed", "caterpillar"]))
    if rng.random() < 0.25:
        c17.perturb(rng, t, rng.choice([0, 1, 256]))
    for nd in trees.preorder(t)[1:]:
        if nd["len"] is None or nd["len"] <= 0:
            nd["len"] = 256           # positive lengths: the lineage-count oracle applies
    ids = [nd["id"] for nd in trees.preorder(t)]
    internal = [nd["id"] for nd in trees.preorder(t)[1:] if nd["kids"]]

    def depths():
        return sorted({0, 128, 256, 300, 512, 768, 1024, 1536, 2048, 3000} | {rng.randrange(0, 6000) for _ in range(3)})

    def query(first):
        q = {"xs": rng.sample(depths(), 5), "ages": [], "treeness": rng.random() < 0.5, "gamma": []}
        if rng.random() < 0.7:
            q["ages"].append([rng.choice(["default", "none", 1.0, 0]), False, False, rng.random() < 0.4])
        if rng.random() < 0.4 and (first or with_stale_gamma):
            q["gamma"].append(rng.choice(["default", "none"]))
        return q

    def edit():
        r = rng.random()
        if r < 0.3:
            return ["scale", rng.choice([2, 4])]
        if r < 0.65:
            k = rng.randint(1, max(1, min(3, len(ids) - 1)))
            return ["assign", [[i, rng.choice([256, 512, 768, 1024, 2048, 3072])] for i in rng.sample(ids[1:], k)]]
        if r < 0.8:
            return ["setlen", rng.choice([0, 256, 512, None])]
        if r < 0.92 and internal:
            return ["slide", rng.choice(internal), rng.choice([64, 128, 256])]
        if internal:
            return ["reroot", rng.choice(internal)]
        return ["scale", 2]

    steps = []
    # something that leaves cached attributes behind, then edits, then queries
    warm = rng.choice([["query", query(True)], ["rootdist"], ["maxdist"], ["minmax"], ["calcages", rng.choice(["default", "none"])],
                       ["query", query(True)]])
    steps.append(warm)
    for _ in range(rng.randint(1, 3)):
        for _e in range(rng.randint(1, 2)):
            steps.append(edit())
        steps.append(["query", query(False)])
    return {"kind": "hist", "gen": "history", "tree": t, "steps": steps}


def fixed_hist_cases():
    """query, rescale / reassign, query again (the shape of seeded defect C17-3)"""
    lf = lambda i, x, l: {"id": i, "taxon": x, "label": None, "len": l, "kids": []}
    t = {"id": 0, "taxon": None, "label": None, "len": None, "kids": [
        {"id": 1, "taxon": None, "label": None, "len": 1024, "kids": [lf(2, 0, 1024), lf(3, 1, 1024)]},
        {"id": 4, "taxon": None, "label": None, "len": 1024, "kids": [
            {"id": 5, "taxon": None, "label": None, "len": 512, "kids": [lf(6, 2, 512), lf(7, 3, 512)]}, lf(8, 4, 1024)]}]}
    q = {"xs": [256, 512, 1024, 1280, 1792, 2048, 3000], "ages": [["default", False, False, False]], "treeness": True, "gamma": []}
    out = []
    for ed in (["scale", 2], ["assign", [[1, 2048], [2, 512], [3, 512]]], ["setlen", 768], ["slide", 1, 256]):
        out.append({"kind": "hist", "gen": "history-fixed", "tree": copy.deepcopy(t),
                    "steps": [["query", copy.deepcopy(q)], ed, ["query", copy.deepcopy(q)]]})
    for w in (["rootdist"], ["maxdist"], ["minmax"]):
        out.append({"kind": "hist", "gen": "history-fixed", "tree": copy.deepcopy(t),
                    "steps": [w, ["scale", 2], ["query", copy.deepcopy(q)]]})
    return out


# ----------------------------------------------------------------------------------------------

def observe_hist(case, c17):
    from dendropy.calculate import treemeasure as tm
    tree, by_id = c17.build(case["tree"])
    alloc = trees.IdAlloc(1000)
    taxon_index = {}
    for nd in tree.preorder_node_iter():
        if nd.taxon is not None:
            taxon_index[id(nd.taxon)] = c17.by_id_taxon(case["tree"], nd._dv_id)

    def current():
        spec, problems = trees.dump_dendropy(tree, taxon_index, alloc=alloc)
        if problems:
            raise RuntimeError("tree damaged by an edit: %r" % problems)
        return spec

    def node_of(i):
        for nd in tree.preorder_node_iter():
            if getattr(nd, "_dv_id", None) == i:
                return nd
        return None
    out = []
    ages_stale = False          # age attributes exist that were computed before the last edit
    have_ages = False
    for st in case["steps"]:
        kind = st[0]
        if kind == "query":
            q = st[1]
            spec = current()
            o = {"spec": spec, "ages_stale": ages_stale and have_ages}
            o["lineages"] = [[x, c17.attempt(lambda x=x: tree.num_lineages_at(x * UNIT))] for x in q["xs"]]
            o["maxd"] = c17.attempt(lambda: tree.max_distance_from_root(), c17.units)
            o["minmax"] = c17.attempt(lambda: tree.minmax_leaf_distance_from_root(), lambda p: [c17.units(p[0]), c17.units(p[1])])
            o["length"] = c17.units(tree.length())
            o["treeness"] = [c17.attempt(lambda: tm.treeness(tree), c17.fl)] if q["treeness"] else []
            o["gamma"] = []
            o["gamma_affected"] = []
            for p in q["gamma"]:      # before the node_ages calls of this group: sees what earlier steps left
                use, val = c17.prec_value(p)
                kw = {"prec": val} if use else {}
                # Is this call affected by the listed finding (pybus_harvey_gamma reuses existing age
                # attributes)?  Exactly when the seed node already has an age and the ages on the tree are
                # not what calc_node_ages with this precision computes for the CURRENT lengths.
                affected = False
                if tree.seed_node.age is not None:
                    fresh, fby = c17.build(spec)
                    try:
                        fresh.calc_node_ages(**({"ultrametricity_precision": val} if use else {}))
                        for nd in tree.preorder_node_iter():
                            if fby[nd._dv_id].age != nd.age:
                                affected = True
                    except Exception:
                        affected = True      # a fresh call raises; the reuse returns something else
                o["gamma_affected"].append(affected)
                o["gamma"].append(c17.attempt(lambda: tm.pybus_harvey_gamma(tree, **kw), c17.fl, c17.cerr_enum))
            o["ages"] = []
            for p, fmax, fmin, io in q["ages"]:
                kw = c17.calc_kwargs({"prec": p, "fmax": fmax, "fmin": fmin})
                fn = tree.internal_node_ages if io else tree.node_ages
                o["ages"].append(c17.attempt(lambda: fn(**kw), lambda l: [c17.units(v) for v in l], c17.cerr_enum))
                have_ages = True
                ages_stale = False
            n = len(trees.leaves(spec))
            o["tr"] = {"ln_n": c17.fl(math.log(n)), "ln_2": c17.fl(math.log(2)), "euler": c17.fl(tm.EULERS_CONSTANT),
                       "pow15": c17.fl(pow(n, 1.5)), "sqrt_f": c17.fl(pow(1 / (12 * (n - 2.0)), 0.5)) if n > 2 else [0, 1]}
            out.append(o)
            continue
        try:
            if kind == "scale":
                tree.scale_edges(st[1])
                ages_stale = True
            elif kind == "assign":
                for i, u in st[1]:
                    nd = node_of(i)
                    if nd is not None and nd._parent_node is not None:
                        nd.edge.length = u * UNIT
                ages_stale = True
            elif kind == "slide":
                nd = node_of(st[1])
                d = st[2] * UNIT
                if nd is not None and nd._parent_node is not None and nd._child_nodes and nd.edge.length is not None \
                        and all(ch.edge.length is not None and ch.edge.length > d for ch in nd._child_nodes):
                    nd.edge.length += d
                    for ch in nd._child_nodes:
                        ch.edge.length -= d
                    ages_stale = True
            elif kind == "setlen":
                tree.calc_node_ages(ultrametricity_precision=False)
                tree.set_edge_lengths_from_node_ages(minimum_edge_length=None if st[1] is None else st[1] * UNIT)
                have_ages = True
                ages_stale = st[1] not in (None, 0)      # clamped lengths no longer match the ages
            elif kind == "reroot":
                nd = node_of(st[1])
                if nd is not None and nd._parent_node is not None and nd._child_nodes:
                    tree.reroot_at_node(nd, suppress_unifurcations=False)
                    for x in tree.preorder_node_iter():
                        if x._parent_node is not None and x.edge.length is None:
                            x.edge.length = 0.0
                    ages_stale = True
            elif kind == "rootdist":
                tree.calc_node_root_distances()
            elif kind == "maxdist":
                tree.max_distance_from_root()
            elif kind == "minmax":
                tree.minmax_leaf_distance_from_root()
            elif kind == "calcages":
                use, val = c17.prec_value(st[1])
                tree.calc_node_ages(**({"ultrametricity_precision": val} if use else {}))
                have_ages = True
                ages_stale = False
            out.append({"edit": "ok"})
        except Exception as e:      # an edit that fails is part of the history, not a finding of C17
            out.append({"edit": core.exc_enum(e)})
    return out


def to_coq_terms(case, obs, c17):
    terms = []
    fx = cbool(c17.fixed_variant())
    for st, o in zip(case["steps"], obs):
        if st[0] != "query":
            continue
        q = st[1]
        w = o["tr"]
        tr = "(mkTr %s %s %s %s %s)" % (c17.c_q(w["ln_n"]), c17.c_q(w["ln_2"]), c17.c_q(w["euler"]), c17.c_q(w["pow15"]), c17.c_q(w["sqrt_f"]))
        lin = clist([cpair(cz(x), c17.c_res(r, cz)) for x, r in o["lineages"]])
        srt = []
        for (p, fmax, fmin, io), r in zip(q["ages"], o["ages"]):
            cfg = "(mkCfg %s %s %s)" % (c17.c_prec(p), cbool(fmax), cbool(fmin))
            so = "(LOk %s)" % c17.c_lz(r[1]) if r[0] == "ok" else "(LErr %s)" % c17.c_cerr(r[1])
            srt.append("(%s, %s, %s)" % (cfg, cbool(io), so))
        # gamma on stale ages is judged by the oracle only (the model has no age cache)
        gam = [cpair(c17.c_prec(p), c17.c_gobs(r)) for p, r, a in zip(q["gamma"], o["gamma"], o["gamma_affected"]) if not a]
        terms.append("(CaseStep %s %s %s %s %s %s %s %s %s %s)" % (
            fx, trees.c_tree(o["spec"]), tr, lin, c17.c_res(o["maxd"], cz), c17.c_res(o["minmax"], c17.c_zz),
            cz(o["length"]), clist(srt), clist([c17.c_sobs(x) for x in o["treeness"]]), clist(gam)))
    return terms


# ----------------------------------------------------------------------------------------------

def describe(case, upto):
    return "history on %s: %s" % (trees.newick(case["tree"]), "; ".join(
        (s[0] if s[0] != "query" else "query") + ("" if len(s) < 2 or s[0] == "query" else " %r" % (s[1],))
        for s in case["steps"][:upto + 1]))


def oracle_hist(case, obs, c17):
    for k, (st, o) in enumerate(zip(case["steps"], obs)):
        if st[0] != "query":
            continue
        q = st[1]
        spec = o["spec"]
        node, parent = c17.index(spec)
        nonroot = [nd for nd in node.values() if parent[nd["id"]] is not None]
        if any(nd["len"] is None for nd in nonroot):
            continue
        depth = {}
        for i in node:
            d, cur = 0, node[i]
            while parent[cur["id"]] is not None:
                d += cur["len"]
                cur = parent[cur["id"]]
            depth[i] = d
        here = describe(case, k)
        if all(nd["len"] > 0 for nd in nonroot):
            for x, r in o["lineages"]:
                want = sum(1 for i in node if parent[i] is not None and depth[parent[i]["id"]] < x <= depth[i])
                if r != ["ok", want]:
                    return ("num_lineages_at(%d units) = %r but %d edges of the CURRENT tree %s cross that depth (%s)"
                            % (x, r, want, trees.newick(spec), here), "num-lineages-after-edit" if k else "num-lineages")
        leaf_d = [depth[i] for i in node if not node[i]["kids"]]
        if o["maxd"] != ["ok", max(leaf_d)] or o["minmax"] != ["ok", [min(leaf_d), max(leaf_d)]]:
            return ("max/minmax leaf distance %r %r differ from the CURRENT tree %s (%s)" % (o["maxd"], o["minmax"], trees.newick(spec), here),
                    "minmax-distance-after-edit" if k else "minmax-distance")
        total = sum((nd["len"] or 0) for nd in node.values())
        if o["length"] != total:
            return ("length() = %d, CURRENT edge lengths sum to %d (%s)" % (o["length"], total, here), "tree-length-after-edit")
        td = c17.tip_distances(spec)
        exact = all(max(v) == min(v) for v in td.values())
        for (p, fmax, fmin, io), r in zip(q["ages"], o["ages"]):
            if exact:
                want = sorted(td[i][0] for i in node if not (io and not node[i]["kids"]))
                if r != ["ok", want]:
                    return ("node ages %r are not the tip distances %r of the CURRENT (ultrametric) tree %s (%s)"
                            % (r, want, trees.newick(spec), here), "node-ages-after-edit" if k else "node-ages")
        tot = sum(nd["len"] for nd in nonroot)
        for r in o["treeness"]:
            if tot != 0:
                want = Fraction(sum(nd["len"] for nd in nonroot if nd["kids"]), tot)
                if r[0] != "ok" or not c17.close(r[1], want):
                    return ("treeness = %r, internal/total length of the CURRENT tree = %s (%s)" % (r, want, here), "treeness-after-edit")
        internal = [nd for nd in node.values() if nd["kids"]]
        n = len(node) - len(internal)
        binary = all(len(nd["kids"]) == 2 for nd in internal)
        if o["gamma"] and binary and exact and n >= 3 and tot != 0:
            ages = sorted((td[nd["id"]][0] for nd in internal), reverse=True)
            g = {kk: ages[kk - 2] - (ages[kk - 1] if kk - 1 < len(ages) else 0) for kk in range(2, n + 1)}
            T = sum(kk * g[kk] for kk in range(2, n + 1))
            inner = sum(sum(kk * g[kk] for kk in range(2, i + 1)) for i in range(2, n))
            f = float((Fraction(inner, n - 2) - Fraction(T, 2)) / T) / math.sqrt(1.0 / (12 * (n - 2)))
            for r, affected in zip(o["gamma"], o["gamma_affected"]):
                val = r[1][0] / r[1][1] if r[0] == "ok" else None
                if val is None or not math.isclose(val, f, rel_tol=1e-10, abs_tol=1e-12):
                    return ("pybus_harvey_gamma = %r, the CURRENT tree %s gives %r (%s)" % (r, trees.newick(spec), f, here),
                            KEY_GAMMA_STALE if affected else "gamma-after-edit")
    return None
