"""C12 helper (wave 7): naive identity-level observation of a datamodel object and its copy.

Deliberately independent of the graph dumper (c12_graph.py) and of everything the model knows about classes:
no table of __deepcopy__ methods, no kinds.  An object is whatever Python says it is:

  walk(roots)      every object with identity reachable from `roots` through attribute dictionaries, slots, list /
                   tuple / set / frozenset members and dict keys and values (instances of subclasses included);
                   immutable scalars, classes, functions and bound methods are values, not objects.
                   EMPTY lists, dicts and sets are objects like any other.
  value objects    StateAlphabet / StateIdentity instances are documented value objects shared by every matrix
                   of a data type: they are recorded but nothing behind them is followed and they never count as
                   shared state (fixed list of two base classes, not derived from what __deepcopy__ does).
  fingerprints     for every object one level of content: attribute names / positions / keys with the IDENTITY of
                   what they hold (id for objects, type+repr for scalars).  Taken of every object on both sides
                   after every step of a history; the objects are kept alive in between, so ids are stable.

The oracle's clauses on top of it are stated in the property's own words: no mutable object of the copy is an
object of the source unless the documented depth shares it; an operation on one side changes no object of the
other; an attribute-bound annotation of the copy is bound to the copy's counterpart of the owner.
"""
import types

_SCALARS = (bool, int, float, complex, str, bytes, type, types.FunctionType, types.BuiltinFunctionType,
            types.MethodType, range, types.ModuleType)


def is_scalar(x):
    return x is None or isinstance(x, _SCALARS)


def _value_classes():
    from dendropy.datamodel import charstatemodel
    return (charstatemodel.StateAlphabet, charstatemodel.StateIdentity)


def children(x, skip_attrs=()):
    """[(edge name, child)] one level below x, in a deterministic order"""
    out = []
    if isinstance(x, (list, tuple)):
        for i, y in enumerate(x):
            out.append(("[%d]" % i, y))
    elif isinstance(x, (set, frozenset)):
        for y in x:
            out.append(("{member}", y))
    if isinstance(x, dict):
        for i, (k, v) in enumerate(x.items()):
            out.append(("{key %d}" % i, k))
            out.append(("[%s]" % (repr(k)[:24] if is_scalar(k) else "key %d" % i), v))
    d = getattr(x, "__dict__", None)
    if isinstance(d, dict):
        for k, v in d.items():
            if k in skip_attrs:
                continue
            out.append(("." + str(k), v))
    for cls in type(x).__mro__:
        sl = cls.__dict__.get("__slots__", ())
        if isinstance(sl, str):
            sl = (sl,)
        for nm in sl:
            if nm in ("__dict__", "__weakref__") or nm in skip_attrs:
                continue
            try:
                out.append(("." + nm, getattr(x, nm)))
            except AttributeError:
                pass
    return out


class Walk(object):
    """objects reachable from `roots`: .objs id -> object (kept alive), .path id -> access path from its root,
    .opaque = ids of value objects (recorded, not followed)"""

    def __init__(self, roots, skip_attrs=(), names=None):
        self.objs = {}
        self.path = {}
        self.opaque = set()
        vcls = _value_classes()
        stack = []
        for n, r in enumerate(roots):
            stack.append((r, names[n] if names else "root%d" % n))
        while stack:
            x, p = stack.pop()
            if is_scalar(x) or id(x) in self.objs:
                continue
            self.objs[id(x)] = x
            self.path[id(x)] = p
            if isinstance(x, vcls):
                self.opaque.add(id(x))
                continue
            for name, y in reversed(children(x, skip_attrs)):
                if not is_scalar(y) and id(y) not in self.objs:
                    stack.append((y, p + name))

    def ids(self):
        return set(self.objs)


def is_immutable_container(x):
    return type(x) in (tuple, frozenset)


def fingerprint(x, skip_attrs=()):
    """one level of content of x with the identity of what it holds"""
    fp = [type(x).__name__]
    for name, y in children(x, skip_attrs):
        if name == "{member}":
            continue
        fp.append((name, ("v", type(y).__name__, _srepr(y)) if is_scalar(y) else ("o", id(y))))
    if isinstance(x, (set, frozenset)):
        fp.append(("members", tuple(sorted((("v", type(y).__name__, _srepr(y)) if is_scalar(y) else ("o", id(y))) for y in x))))
    return tuple(fp)


def _srepr(y):
    if isinstance(y, float):
        return y.hex() if y == y else "nan"
    if isinstance(y, (types.FunctionType, types.BuiltinFunctionType, types.MethodType)):
        return getattr(y, "__qualname__", "function")
    if isinstance(y, type):
        return y.__module__ + "." + y.__qualname__
    if isinstance(y, types.ModuleType):
        return y.__name__
    return repr(y)


def snapshot(walk, skip_attrs=()):
    return {i: fingerprint(x, skip_attrs) for i, x in walk.objs.items() if i not in walk.opaque}


class Pair(object):
    """source, copy and what the documented depth lets them share, observed at identity level"""

    def __init__(self, root, cp, allowed, skip_attrs=()):
        self.skip = skip_attrs
        self.root, self.cp = root, cp
        self.src = Walk([root], (), ["source"])
        self.cpw = Walk([cp], skip_attrs, ["copy"])
        self.allowed = Walk(list(allowed), (), ["shared%d" % i for i in range(len(allowed))])
        ok = self.allowed.ids()
        both = self.src.ids() & self.cpw.ids()
        self.shared = sorted((i for i in both
                              if i not in ok and i not in self.src.opaque and not is_immutable_container(self.src.objs[i])),
                             key=lambda i: (self.cpw.path[i].count(".") + self.cpw.path[i].count("["), self.cpw.path[i]))
        # the private regions (everything not in the documented shares), kept alive
        self.private_src = {i: x for i, x in self.src.objs.items() if i not in ok and i not in self.src.opaque}
        self.private_cp = {i: x for i, x in self.cpw.objs.items() if i not in ok and i not in self.cpw.opaque}
        self.allowed_ids = ok

    def shared_report(self, n=6):
        """[[class, path from the copy, path from the source]] of the first shared objects"""
        return [[type(self.src.objs[i]).__name__, self.cpw.path[i], self.src.path[i]] for i in self.shared[:n]]

    def shared_classes(self):
        return sorted(set(type(self.src.objs[i]).__name__ for i in self.shared))

    def shared_empty(self):
        """how many of the shared objects are EMPTY containers"""
        return sum(1 for i in self.shared if isinstance(self.src.objs[i], (list, dict, set)) and len(self.src.objs[i]) == 0)

    def snap(self, side):
        objs = self.private_src if side == "src" else self.private_cp
        return {i: fingerprint(x, self.skip if side == "copy" else ()) for i, x in objs.items()}

    def changed(self, side, before):
        """objects of `side`'s private region (as it was when `before` was taken) whose content is different now:
        [[class, path]]"""
        objs = self.private_src if side == "src" else self.private_cp
        paths = self.src.path if side == "src" else self.cpw.path
        out = []
        for i, fp in before.items():
            if fingerprint(objs[i], self.skip if side == "copy" else ()) != fp:
                out.append([type(objs[i]).__name__, paths[i]])
        out.sort(key=lambda e: (len(e[1]), e[1]))
        return out
