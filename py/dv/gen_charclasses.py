"""Generator for coq/Gen/CharClasses.v (fail closed).

Extracts, with Python `ast` from the CURRENT source under <repo>/src/dendropy/dataio:

  * nexusprocessing.NexusTokenizer.__init__ : every keyword argument of the Tokenizer.__init__
    call (uncaptured/captured delimiters, quote chars, escape_quote_by_doubling, escape chars,
    comment begin/end, capture_comments) -- `set("...")` literals become sorted code point lists;
  * nexusprocessing.escape_nexus_token : defaults of preserve_spaces / quote_underscores and the
    default `protect_regex` character class;
  * newickwriter.NewickWriter._render_node_tag : the `protect_regex` passed to escape_nexus_token;
  * newickwriter.NewickWriter._write_tree : the rooting tokens written for a rooted / an unrooted
    tree (and the empty token for an undefined or suppressed rooting);
  * newickreader.NewickReader._process_tree_comments : the list of comment texts recognised as
    rooting comments, and NewickReader._parse_tree_rooting_state : which of them mean rooted /
    unrooted.

A regex is accepted only when it is one simple character class `[...]` (no negation, no ranges,
escapes limited to \\\\ \\] \\[ \\/ \\- \\0 \\t \\n \\r and escaped punctuation); anything else raises.
"""
import ast
import os

from dv.py2coq import Unsupported, find_def


def _read(repo, rel):
    with open(os.path.join(repo, "src", "dendropy", rel)) as f:
        return ast.parse(f.read())


def _const_str(node, what):
    if isinstance(node, ast.Constant) and isinstance(node.value, str):
        return node.value
    raise Unsupported("%s: expected a string literal, found %s" % (what, ast.dump(node)[:80]))


def _const_bool(node, what):
    if isinstance(node, ast.Constant) and isinstance(node.value, bool):
        return node.value
    raise Unsupported("%s: expected True/False, found %s" % (what, ast.dump(node)[:80]))


def _set_literal(node, what):
    """set("...") -> sorted list of code points"""
    if (isinstance(node, ast.Call) and isinstance(node.func, ast.Name) and node.func.id == "set"
            and len(node.args) == 1 and not node.keywords):
        s = _const_str(node.args[0], what)
        return sorted(set(ord(c) for c in s))
    raise Unsupported("%s: expected set(\"...\"), found %s" % (what, ast.dump(node)[:80]))


SIMPLE_ESCAPES = {"t": 9, "n": 10, "r": 13, "0": 0, "f": 12, "v": 11, "a": 7}
# characters that, unescaped inside a class, would mean something we do not interpret
PUNCT_OK_ESCAPED = set("\\]^[-/.*+?(){}|$\"'`,;:=<>!#%&@~_ ")


def parse_char_class(rx, what):
    """`[...]` regex -> sorted list of code points; raises Unsupported on anything else."""
    if len(rx) < 3 or rx[0] != "[" or rx[-1] != "]":
        raise Unsupported("%s: regex %r is not a single character class" % (what, rx))
    body = rx[1:-1]
    if body.startswith("^"):
        raise Unsupported("%s: negated class %r" % (what, rx))
    out = []
    i = 0
    n = len(body)
    while i < n:
        c = body[i]
        if c == "\\":
            if i + 1 >= n:
                raise Unsupported("%s: dangling backslash in %r" % (what, rx))
            d = body[i + 1]
            if d in SIMPLE_ESCAPES:
                if d == "0" and i + 2 < n and body[i + 2].isdigit():
                    raise Unsupported("%s: octal escape in %r" % (what, rx))
                out.append(SIMPLE_ESCAPES[d])
            elif d in PUNCT_OK_ESCAPED:
                out.append(ord(d))
            else:
                raise Unsupported("%s: escape \\%s in %r not supported" % (what, d, rx))
            i += 2
            continue
        if c == "]":
            raise Unsupported("%s: unescaped ']' inside class %r (more than one class?)" % (what, rx))
        if c == "-" and 0 < i < n - 1:
            raise Unsupported("%s: character range in %r" % (what, rx))
        if c == "[" and i + 1 < n and body[i + 1] == ":":
            raise Unsupported("%s: POSIX class in %r" % (what, rx))
        out.append(ord(c))
        i += 1
    if not out:
        raise Unsupported("%s: empty class" % what)
    return sorted(set(out))


def _tokenizer_args(tree):
    init = find_def(tree, "__init__", "NexusTokenizer")
    calls = [n for n in ast.walk(init)
             if isinstance(n, ast.Call) and isinstance(n.func, ast.Attribute)
             and n.func.attr == "__init__" and isinstance(n.func.value, ast.Name)
             and n.func.value.id == "Tokenizer"]
    if len(calls) != 1:
        raise Unsupported("NexusTokenizer.__init__: expected exactly one Tokenizer.__init__ call, found %d" % len(calls))
    # nothing else in the constructor may touch the sets
    for st in init.body:
        if isinstance(st, ast.Expr) and isinstance(st.value, ast.Constant):
            continue
        if isinstance(st, ast.Expr) and st.value is calls[0]:
            continue
        raise Unsupported("NexusTokenizer.__init__: unexpected statement at line %d" % st.lineno)
    call = calls[0]
    if not (len(call.args) == 1 and isinstance(call.args[0], ast.Name) and call.args[0].id == "self"):
        raise Unsupported("NexusTokenizer.__init__: positional arguments in Tokenizer.__init__ call")
    kw = {k.arg: k.value for k in call.keywords}
    need = ["src", "uncaptured_delimiters", "captured_delimiters", "quote_chars", "escape_quote_by_doubling",
            "escape_chars", "comment_begin", "comment_end", "capture_comments", "preserve_unquoted_underscores"]
    if sorted(kw) != sorted(need):
        raise Unsupported("NexusTokenizer.__init__: keyword set changed: %s" % sorted(kw))
    res = {}
    for k in ("uncaptured_delimiters", "captured_delimiters", "quote_chars", "escape_chars", "comment_begin", "comment_end"):
        res[k] = _set_literal(kw[k], "NexusTokenizer." + k)
    for k in ("escape_quote_by_doubling", "capture_comments"):
        res[k] = _const_bool(kw[k], "NexusTokenizer." + k)
    if not (isinstance(kw["preserve_unquoted_underscores"], ast.Name)
            and kw["preserve_unquoted_underscores"].id == "preserve_unquoted_underscores"):
        raise Unsupported("NexusTokenizer.__init__: preserve_unquoted_underscores is not passed through")
    if res["escape_chars"]:
        raise Unsupported("NexusTokenizer: escape_chars not empty (not modelled)")
    return res


def _escape_defaults(tree):
    fn = find_def(tree, "escape_nexus_token")
    names = [a.arg for a in fn.args.args]
    if names != ["label", "preserve_spaces", "quote_underscores", "protect_regex"]:
        raise Unsupported("escape_nexus_token: signature changed: %s" % names)
    d = fn.args.defaults
    if len(d) != 3:
        raise Unsupported("escape_nexus_token: defaults changed")
    return {"preserve_spaces": _const_bool(d[0], "escape_nexus_token.preserve_spaces"),
            "quote_underscores": _const_bool(d[1], "escape_nexus_token.quote_underscores"),
            "protect": parse_char_class(_const_str(d[2], "escape_nexus_token.protect_regex"),
                                        "escape_nexus_token.protect_regex")}


def _writer_class(tree):
    fn = find_def(tree, "_render_node_tag", "NewickWriter")
    calls = [n for n in ast.walk(fn)
             if isinstance(n, ast.Call) and isinstance(n.func, ast.Attribute) and n.func.attr == "escape_nexus_token"]
    if len(calls) != 1:
        raise Unsupported("_render_node_tag: expected exactly one escape_nexus_token call, found %d" % len(calls))
    kw = {k.arg: k.value for k in calls[0].keywords}
    if sorted(kw) != ["preserve_spaces", "protect_regex", "quote_underscores"] or len(calls[0].args) != 1:
        raise Unsupported("_render_node_tag: escape_nexus_token call shape changed: %s" % sorted(kw))
    # preserve_spaces=self.preserve_spaces, quote_underscores=not self.unquoted_underscores
    ps = kw["preserve_spaces"]
    if not (isinstance(ps, ast.Attribute) and ps.attr == "preserve_spaces"):
        raise Unsupported("_render_node_tag: preserve_spaces argument changed")
    qu = kw["quote_underscores"]
    if not (isinstance(qu, ast.UnaryOp) and isinstance(qu.op, ast.Not)
            and isinstance(qu.operand, ast.Attribute) and qu.operand.attr == "unquoted_underscores"):
        raise Unsupported("_render_node_tag: quote_underscores argument changed")
    return parse_char_class(_const_str(kw["protect_regex"], "_render_node_tag.protect_regex"),
                            "_render_node_tag.protect_regex")


def _writer_rooting(tree):
    """the if/elif chain assigning `rooting` in NewickWriter._write_tree"""
    fn = find_def(tree, "_write_tree", "NewickWriter")
    chain = None
    for st in fn.body:
        if isinstance(st, ast.If) and any(isinstance(x, ast.Assign) and isinstance(x.targets[0], ast.Name)
                                          and x.targets[0].id == "rooting" for x in st.body):
            chain = st
            break
    if chain is None:
        raise Unsupported("_write_tree: rooting if-chain not found")

    def assigned(body):
        if len(body) != 1 or not isinstance(body[0], ast.Assign):
            raise Unsupported("_write_tree: rooting branch is not a single assignment")
        return _const_str(body[0].value, "_write_tree.rooting")

    def src(e):
        return ast.unparse(e)

    branches = []
    node = chain
    while True:
        branches.append((src(node.test), assigned(node.body)))
        if len(node.orelse) == 1 and isinstance(node.orelse[0], ast.If):
            node = node.orelse[0]
        else:
            branches.append(("else", assigned(node.orelse)))
            break
    want = ["tree.rooting_state_is_undefined or self.suppress_rooting", "tree.is_rooted", "not tree.is_rooted", "else"]
    if [b[0] for b in branches] != want:
        raise Unsupported("_write_tree: rooting conditions changed: %s" % [b[0] for b in branches])
    if branches[0][1] != "" or branches[3][1] != "":
        raise Unsupported("_write_tree: undefined/suppressed rooting no longer writes the empty token")
    return branches[1][1], branches[2][1]


def _reader_rooting(tree):
    fn = find_def(tree, "_process_tree_comments", "NewickReader")
    lists = []
    for n in ast.walk(fn):
        if (isinstance(n, ast.Compare) and len(n.ops) == 1 and isinstance(n.ops[0], ast.In)
                and isinstance(n.left, ast.Name) and n.left.id == "stripped_comment"
                and isinstance(n.comparators[0], (ast.List, ast.Tuple))):
            lists.append([_const_str(e, "_process_tree_comments") for e in n.comparators[0].elts])
    if len(lists) != 1:
        raise Unsupported("_process_tree_comments: recognised-rooting-comment list not found uniquely")
    fn2 = find_def(tree, "_parse_tree_rooting_state", "NewickReader")
    chain = [st for st in fn2.body if isinstance(st, ast.If)]
    if len(chain) != 1:
        raise Unsupported("_parse_tree_rooting_state: shape changed")
    rows = []
    node = chain[0]
    while True:
        if len(node.body) != 1 or not isinstance(node.body[0], ast.Return):
            raise Unsupported("_parse_tree_rooting_state: branch is not a single return")
        rows.append((ast.unparse(node.test), ast.unparse(node.body[0].value)))
        if len(node.orelse) == 1 and isinstance(node.orelse[0], ast.If):
            node = node.orelse[0]
        else:
            break
    want = [("self._rooting == 'force-unrooted'", "False"), ("self._rooting == 'force-rooted'", "True"),
            None, None,
            ("self._rooting == 'default-rooted'", "True"), ("self._rooting == 'default-unrooted'", "False"),
            ("self._rooting is None", "None")]
    if len(rows) != len(want):
        raise Unsupported("_parse_tree_rooting_state: %d branches" % len(rows))
    for r, w in zip(rows, want):
        if w is not None and r != w:
            raise Unsupported("_parse_tree_rooting_state: branch changed: %s" % (r,))

    def comment_set(test_src, ret, expect):
        t = ast.parse(test_src, mode="eval").body
        if ret != expect or not (isinstance(t, ast.BoolOp) and isinstance(t.op, ast.Or)):
            raise Unsupported("_parse_tree_rooting_state: rooting comment branch changed: %s" % test_src)
        out = []
        for v in t.values:
            if not (isinstance(v, ast.Compare) and isinstance(v.left, ast.Name) and v.left.id == "rooting_comment"
                    and len(v.ops) == 1 and isinstance(v.ops[0], ast.Eq)):
                raise Unsupported("_parse_tree_rooting_state: comparison changed: %s" % test_src)
            out.append(_const_str(v.comparators[0], "_parse_tree_rooting_state"))
        return out
    rooted = comment_set(rows[2][0], rows[2][1], "True")
    unrooted = comment_set(rows[3][0], rows[3][1], "False")
    return lists[0], rooted, unrooted


def zl(codes):
    return "[" + "; ".join(str(c) for c in codes) + "]"


def zstr(s):
    return zl([ord(c) for c in s])


def generate(repo):
    nx = _read(repo, "dataio/nexusprocessing.py")
    nw = _read(repo, "dataio/newickwriter.py")
    nr = _read(repo, "dataio/newickreader.py")
    tk = _tokenizer_args(nx)
    esc = _escape_defaults(nx)
    wcls = _writer_class(nw)
    w_rooted, w_unrooted = _writer_rooting(nw)
    r_list, r_rooted, r_unrooted = _reader_rooting(nr)
    out = [
        "(* GENERATED by py/dv/gen_charclasses.py from dataio/nexusprocessing.py, newickwriter.py,",
        "   newickreader.py -- do not edit.  Characters are Unicode code points (Z). *)",
        "From Coq Require Import ZArith List.",
        "Import ListNotations.",
        "Open Scope Z_scope.",
        "",
        "(* NexusTokenizer.__init__ -> Tokenizer.__init__ keyword arguments *)",
        "Definition tok_uncaptured_delimiters : list Z := %s." % zl(tk["uncaptured_delimiters"]),
        "Definition tok_captured_delimiters : list Z := %s." % zl(tk["captured_delimiters"]),
        "Definition tok_quote_chars : list Z := %s." % zl(tk["quote_chars"]),
        "Definition tok_comment_begin : list Z := %s." % zl(tk["comment_begin"]),
        "Definition tok_comment_end : list Z := %s." % zl(tk["comment_end"]),
        "Definition tok_escape_quote_by_doubling : bool := %s." % ("true" if tk["escape_quote_by_doubling"] else "false"),
        "Definition tok_capture_comments : bool := %s." % ("true" if tk["capture_comments"] else "false"),
        "",
        "(* nexusprocessing.escape_nexus_token defaults *)",
        "Definition escape_default_preserve_spaces : bool := %s." % ("true" if esc["preserve_spaces"] else "false"),
        "Definition escape_default_quote_underscores : bool := %s." % ("true" if esc["quote_underscores"] else "false"),
        "Definition escape_default_protect : list Z := %s." % zl(esc["protect"]),
        "",
        "(* NewickWriter._render_node_tag: protect_regex passed to escape_nexus_token *)",
        "Definition newick_writer_protect : list Z := %s." % zl(wcls),
        "",
        "(* NewickWriter._write_tree rooting tokens *)",
        "Definition writer_rooting_rooted : list Z := %s.   (* %r *)" % (zstr(w_rooted), w_rooted),
        "Definition writer_rooting_unrooted : list Z := %s. (* %r *)" % (zstr(w_unrooted), w_unrooted),
        "",
        "(* NewickReader._process_tree_comments / _parse_tree_rooting_state *)",
        "Definition reader_rooting_comments : list (list Z) := [%s]." % "; ".join(zstr(s) for s in r_list),
        "Definition reader_rooted_comments : list (list Z) := [%s]." % "; ".join(zstr(s) for s in r_rooted),
        "Definition reader_unrooted_comments : list (list Z) := [%s]." % "; ".join(zstr(s) for s in r_unrooted),
        "",
    ]
    return "\n".join(out)


if __name__ == "__main__":
    import sys
    print(generate(sys.argv[1] if len(sys.argv) > 1 else "/repo"))
