"""Gen/Consts.v: numeric constants of the library as exact rationals.

generate(repo) reads the CURRENT source text (ast, nothing is imported from the library):

* utility/constants.py: every module-level `NAME = <expr>` is evaluated with a tiny whitelisted
  evaluator (float/int literals, `float(..)`, `decimal.Decimal(..)`, `.next_plus()`, `.next_minus()`,
  unary minus, + - * /) under Python's own default decimal context, i.e. exactly what importing
  the module computes; the resulting binary64 value is emitted as the exact rational
  `num # den` (Fraction(float) is exact).
* datamodel/treecollectionmodel.py, SplitDistribution.consensus_tree: the tolerance literal of
  the `_almost_one = lambda x: abs(x - 1.0) <= <tol>` clause and the shape of the filter
  condition `(min_freq is None) or (freq >= min_freq) or (_almost_one(min_freq) and
  _almost_one(freq))`; the comparison operator of the threshold test is emitted as a boolean
  (`threshold_test_is_ge`), so `>=` -> `>` changes the generated file.
* SplitDistribution.collapse_edges_with_less_than_minimum_support: the comparison operator
  of `split_frequencies[s] < min_freq` (`collapse_test_is_lt`).

Anything outside the expected shapes raises -> the translator fails closed.
"""
import ast
import decimal
import os
from fractions import Fraction


class Unsupported(Exception):
    pass


def _eval(e):
    """evaluate the whitelisted expression language; returns a Python float/int/Decimal"""
    if isinstance(e, ast.Constant) and isinstance(e.value, (int, float)) and not isinstance(e.value, bool):
        return e.value
    if isinstance(e, ast.UnaryOp) and isinstance(e.op, ast.USub):
        return -_eval(e.operand)
    if isinstance(e, ast.BinOp) and isinstance(e.op, (ast.Add, ast.Sub, ast.Mult, ast.Div)):
        a, b = _eval(e.left), _eval(e.right)
        if isinstance(e.op, ast.Add):
            return a + b
        if isinstance(e.op, ast.Sub):
            return a - b
        if isinstance(e.op, ast.Mult):
            return a * b
        return a / b
    if isinstance(e, ast.Call) and not e.keywords:
        f = e.func
        if isinstance(f, ast.Name) and f.id == "float" and len(e.args) == 1:
            return float(_eval(e.args[0]))
        if (isinstance(f, ast.Attribute) and f.attr == "Decimal" and isinstance(f.value, ast.Name)
                and f.value.id == "decimal" and len(e.args) == 1):
            a = e.args[0]
            if isinstance(a, ast.Constant) and isinstance(a.value, str):
                return decimal.Decimal(a.value)
            return decimal.Decimal(_eval(a))
        if isinstance(f, ast.Attribute) and f.attr in ("next_plus", "next_minus") and not e.args:
            v = _eval(f.value)
            if not isinstance(v, decimal.Decimal):
                raise Unsupported("%s on a non-Decimal" % f.attr)
            # a fresh default context: what a plain `import dendropy` sees
            ctx = decimal.Context()
            return getattr(v, f.attr)(context=ctx)
    raise Unsupported("expression %s" % ast.dump(e)[:120])


def _q(x):
    fr = Fraction(x)
    n = ("(%d)" % fr.numerator) if fr.numerator < 0 else str(fr.numerator)
    return "(%s # %d)" % (n, fr.denominator)


def _find(nodes, cls, name):
    for n in nodes:
        if isinstance(n, cls) and n.name == name:
            return n
    raise Unsupported("%s not found" % name)


def _consensus_clause(tcm):
    cls = _find(tcm.body, ast.ClassDef, "SplitDistribution")
    fn = _find(cls.body, ast.FunctionDef, "consensus_tree")
    tol = None
    cond = None
    for n in ast.walk(fn):
        if (isinstance(n, ast.Assign) and len(n.targets) == 1 and isinstance(n.targets[0], ast.Name)
                and n.targets[0].id == "_almost_one"):
            lam = n.value
            if not (isinstance(lam, ast.Lambda) and isinstance(lam.body, ast.Compare)
                    and len(lam.body.ops) == 1 and isinstance(lam.body.ops[0], ast.LtE)):
                raise Unsupported("_almost_one is not `lambda x: abs(x - 1.0) <= tol`")
            left = lam.body.left
            if not (isinstance(left, ast.Call) and isinstance(left.func, ast.Name) and left.func.id == "abs"
                    and isinstance(left.args[0], ast.BinOp) and isinstance(left.args[0].op, ast.Sub)
                    and isinstance(left.args[0].right, ast.Constant) and left.args[0].right.value == 1.0):
                raise Unsupported("_almost_one left-hand side shape")
            tol = float(_eval(lam.body.comparators[0]))
        if isinstance(n, ast.If) and isinstance(n.test, ast.BoolOp) and isinstance(n.test.op, ast.Or):
            names = {x.id for x in ast.walk(n.test) if isinstance(x, ast.Name)}
            if {"min_freq", "freq"} <= names:
                cond = n.test
    if tol is None or cond is None:
        raise Unsupported("consensus_tree: tolerance clause or filter condition not found")
    if len(cond.values) != 3:
        raise Unsupported("consensus_tree filter: expected 3 disjuncts, found %d" % len(cond.values))
    d0, d1, d2 = cond.values
    if not (isinstance(d0, ast.Compare) and isinstance(d0.ops[0], ast.Is) and isinstance(d0.left, ast.Name)
            and d0.left.id == "min_freq"):
        raise Unsupported("consensus_tree filter: first disjunct is not `min_freq is None`")
    if not (isinstance(d1, ast.Compare) and len(d1.ops) == 1 and isinstance(d1.left, ast.Name)
            and d1.left.id == "freq" and isinstance(d1.comparators[0], ast.Name)
            and d1.comparators[0].id == "min_freq" and isinstance(d1.ops[0], (ast.GtE, ast.Gt))):
        raise Unsupported("consensus_tree filter: second disjunct is not `freq >= min_freq` / `freq > min_freq`")
    if not (isinstance(d2, ast.BoolOp) and isinstance(d2.op, ast.And) and len(d2.values) == 2
            and all(isinstance(v, ast.Call) and isinstance(v.func, ast.Name) and v.func.id == "_almost_one"
                    for v in d2.values)):
        raise Unsupported("consensus_tree filter: third disjunct is not `_almost_one(min_freq) and _almost_one(freq)`")
    # the sort that follows must be descending
    desc = False
    for n in ast.walk(fn):
        if (isinstance(n, ast.Call) and isinstance(n.func, ast.Attribute) and n.func.attr == "sort"
                and isinstance(n.func.value, ast.Name) and n.func.value.id == "to_try_to_add"):
            desc = any(k.arg == "reverse" and isinstance(k.value, ast.Constant) and k.value.value is True
                       for k in n.keywords)
            if n.args or any(k.arg not in ("reverse",) for k in n.keywords):
                raise Unsupported("consensus_tree: sort with a key function")
    return tol, isinstance(d1.ops[0], ast.GtE), desc


def _collapse_clause(tcm):
    cls = _find(tcm.body, ast.ClassDef, "SplitDistribution")
    fn = _find(cls.body, ast.FunctionDef, "collapse_edges_with_less_than_minimum_support")
    for n in ast.walk(fn):
        if (isinstance(n, ast.Compare) and len(n.ops) == 1 and isinstance(n.comparators[0], ast.Name)
                and n.comparators[0].id == "min_freq" and isinstance(n.left, ast.Subscript)):
            if isinstance(n.ops[0], ast.Lt):
                return True
            if isinstance(n.ops[0], ast.LtE):
                return False
            raise Unsupported("collapse threshold test operator")
    raise Unsupported("collapse threshold test not found")


def _treearray_forwards(tcm):
    """does TreeArray.__init__ hand its use_tree_weights on to the SplitDistribution it creates?"""
    cls = _find(tcm.body, ast.ClassDef, "TreeArray")
    fn = _find(cls.body, ast.FunctionDef, "__init__")
    calls = [n for n in ast.walk(fn) if isinstance(n, ast.Call) and isinstance(n.func, ast.Name)
             and n.func.id == "SplitDistribution"]
    if len(calls) != 1:
        raise Unsupported("TreeArray.__init__: expected exactly one SplitDistribution(...) call")
    call = calls[0]
    if call.args or any(k.arg is None for k in call.keywords):
        raise Unsupported("TreeArray.__init__: SplitDistribution called with positional / ** arguments")
    for k in call.keywords:
        if k.arg == "use_tree_weights":
            v = k.value
            ok = (isinstance(v, ast.Attribute) and v.attr == "use_tree_weights" and isinstance(v.value, ast.Name)
                  and v.value.id == "self") or (isinstance(v, ast.Name) and v.id == "use_tree_weights")
            if not ok:
                raise Unsupported("TreeArray.__init__: use_tree_weights passed as an unexpected expression")
            return True
    return False


def _treearray_none_rooting(tcm):
    """TreeArray.add_tree: is an undefined tree rooting (None) turned into False before
    validate_rooting?  Accepted shapes:
       self.validate_rooting(tree.is_rooted)                         -> False
       rooting = tree.is_rooted; if rooting is None: rooting = False;
       self.validate_rooting(rooting)                                -> True"""
    cls = _find(tcm.body, ast.ClassDef, "TreeArray")
    fn = _find(cls.body, ast.FunctionDef, "add_tree")
    calls = [n for n in ast.walk(fn) if isinstance(n, ast.Call) and isinstance(n.func, ast.Attribute)
             and n.func.attr == "validate_rooting"]
    if len(calls) != 1 or len(calls[0].args) != 1 or calls[0].keywords:
        raise Unsupported("TreeArray.add_tree: expected exactly one validate_rooting(x) call")
    a = calls[0].args[0]
    if (isinstance(a, ast.Attribute) and a.attr == "is_rooted" and isinstance(a.value, ast.Name)
            and a.value.id == "tree"):
        return False
    if not isinstance(a, ast.Name):
        raise Unsupported("TreeArray.add_tree: validate_rooting argument shape")
    var = a.id
    assigns = [n for n in ast.walk(fn) if isinstance(n, ast.Assign) and len(n.targets) == 1
               and isinstance(n.targets[0], ast.Name) and n.targets[0].id == var]
    ifs = [n for n in fn.body if isinstance(n, ast.If)]
    ok_init = any(isinstance(x.value, ast.Attribute) and x.value.attr == "is_rooted"
                  and isinstance(x.value.value, ast.Name) and x.value.value.id == "tree" for x in assigns)
    ok_if = False
    for n in ifs:
        t = n.test
        if (isinstance(t, ast.Compare) and isinstance(t.left, ast.Name) and t.left.id == var
                and len(t.ops) == 1 and isinstance(t.ops[0], ast.Is)
                and isinstance(t.comparators[0], ast.Constant) and t.comparators[0].value is None
                and not n.orelse and len(n.body) == 1 and isinstance(n.body[0], ast.Assign)
                and isinstance(n.body[0].targets[0], ast.Name) and n.body[0].targets[0].id == var
                and isinstance(n.body[0].value, ast.Constant) and n.body[0].value.value is False):
            ok_if = True
    if ok_init and ok_if and len(assigns) == 2:
        return True
    raise Unsupported("TreeArray.add_tree: rooting normalisation of unexpected shape")


def _default_of(fn, argname):
    a = fn.args
    pos = a.args
    defaults = a.defaults
    off = len(pos) - len(defaults)
    for i, p in enumerate(pos):
        if p.arg == argname and i >= off:
            return defaults[i - off]
    raise Unsupported("no default for %s.%s" % (fn.name, argname))


def generate(repo):
    src = os.path.join(repo, "src", "dendropy")
    with open(os.path.join(src, "utility", "constants.py")) as f:
        ctree = ast.parse(f.read())
    vals = {}
    exprs = {}
    for n in ctree.body:
        if isinstance(n, ast.Assign) and len(n.targets) == 1 and isinstance(n.targets[0], ast.Name):
            v = _eval(n.value)
            if isinstance(v, decimal.Decimal):
                raise Unsupported("%s is a Decimal, expected float" % n.targets[0].id)
            vals[n.targets[0].id] = float(v)
            exprs[n.targets[0].id] = ast.unparse(n.value)
    for need in ("GREATER_THAN_HALF", "DEFAULT_ULTRAMETRICITY_PRECISION"):
        if need not in vals:
            raise Unsupported("constants.%s not defined" % need)
    with open(os.path.join(src, "datamodel", "treecollectionmodel.py")) as f:
        tcm = ast.parse(f.read())
    tol, is_ge, desc = _consensus_clause(tcm)
    is_lt = _collapse_clause(tcm)
    # the defaults of min_freq must be the named constant (else the `default` theorems talk about
    # something else)
    sdc = _find(tcm.body, ast.ClassDef, "SplitDistribution")
    tlc = _find(tcm.body, ast.ClassDef, "TreeList")
    tac = _find(tcm.body, ast.ClassDef, "TreeArray")
    for cls, fname in ((sdc, "consensus_tree"), (sdc, "collapse_edges_with_less_than_minimum_support"),
                       (tlc, "consensus"), (tac, "consensus_tree"),
                       (tac, "collapse_edges_with_less_than_minimum_support")):
        d = _default_of(_find(cls.body, ast.FunctionDef, fname), "min_freq")
        if not (isinstance(d, ast.Attribute) and d.attr == "GREATER_THAN_HALF"
                and isinstance(d.value, ast.Name) and d.value.id == "constants"):
            raise Unsupported("%s.%s: default min_freq is not constants.GREATER_THAN_HALF" % (cls.name, fname))
    out = ["(* GENERATED by py/dv/gen_consts.py from utility/constants.py and",
           "   datamodel/treecollectionmodel.py -- do not edit *)",
           "From Coq Require Import ZArith QArith.",
           "Open Scope Q_scope.", ""]
    for name, coqname in (("GREATER_THAN_HALF", "greater_than_half"),
                          ("DEFAULT_ULTRAMETRICITY_PRECISION", "default_ultrametricity_precision")):
        out.append("(* constants.%s = %s  evaluates to %r = %s *)"
                   % (name, exprs[name], vals[name], vals[name].hex()))
        out.append("Definition %s : Q := %s." % (coqname, _q(vals[name])))
        out.append("")
    out.append("(* SplitDistribution.consensus_tree: _almost_one = lambda x: abs(x - 1.0) <= %r *)" % tol)
    out.append("Definition almost_one_tol : Q := %s." % _q(tol))
    out.append("(* ... filter `(min_freq is None) or (freq %s min_freq) or (_almost_one(min_freq) and _almost_one(freq))` *)"
               % (">=" if is_ge else ">"))
    out.append("Definition threshold_test_is_ge : bool := %s." % ("true" if is_ge else "false"))
    out.append("(* ... to_try_to_add.sort(reverse=True) *)")
    out.append("Definition consensus_sort_descending : bool := %s." % ("true" if desc else "false"))
    out.append("(* SplitDistribution.collapse_edges_with_less_than_minimum_support: split_frequencies[s] %s min_freq *)"
               % ("<" if is_lt else "<="))
    out.append("Definition collapse_test_is_lt : bool := %s." % ("true" if is_lt else "false"))
    fw = _treearray_forwards(tcm)
    out.append("(* TreeArray.__init__ %s use_tree_weights to its SplitDistribution *)"
               % ("forwards" if fw else "does NOT forward"))
    out.append("Definition treearray_forwards_use_tree_weights : bool := %s." % ("true" if fw else "false"))
    nr = _treearray_none_rooting(tcm)
    out.append("(* TreeArray.add_tree %s an undefined tree rooting (None) as unrooted (False) *)"
               % ("records" if nr else "does NOT record"))
    out.append("Definition treearray_none_rooting_is_unrooted : bool := %s." % ("true" if nr else "false"))
    out.append("(* every min_freq default in SplitDistribution / TreeList / TreeArray is constants.GREATER_THAN_HALF *)")
    out.append("Definition default_min_freq : Q := greater_than_half.")
    return "\n".join(out) + "\n"
