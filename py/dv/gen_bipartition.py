"""Translator for the bipartition code (property C01)  ->  coq/Gen/Bipartition.v

generate(repo) parses, with `ast`, the CURRENT text of
  src/dendropy/datamodel/treemodel/_bipartition.py   (methods of Bipartition)
  src/dendropy/datamodel/treemodel/_tree.py          (encode_bipartitions and helpers, ...)
  src/dendropy/datamodel/taxonmodel.py               (taxon_bitmask, all_taxa_bitmask)
and compiles them statement by statement into Gallina over the run-time library
coq/Model/C01GenPrims.v.  Two compilers:

* MethodC: methods of an object whose attributes are ints / bools / None (Bipartition).  The object
  is the record `bip`; a method denotes  self -> args -> res (bip * result)  (state threaded
  through, exceptions = PyPrims.err).  Compiled from the AST: assignments, `assert`, `if/elif/else`
  with early returns or joins, `is None` / `is not None` / truthiness tests, `isinstance(x, int)`
  (narrowing), bitwise expressions, calls to other methods (keywords matched against the callee's
  own parameter list), calls of the static functions of Gen/BitFns.v.  An int operand that may be
  None is bound through `need_int` (TypeError).
* EncodeC (further below): Tree.encode_bipartitions.

Anything outside the recognised shapes raises Unsupported: py2coq then writes a stub and every
dependent proof breaks (fail closed).
"""
import ast
import os

OUTPUT = "Bipartition.v"


class Unsupported(Exception):
    pass


class Widen(Exception):
    def __init__(self, var, ty):
        self.var, self.ty = var, ty


def find_def(tree, name, cls=None):
    nodes = tree.body
    if cls:
        for n in nodes:
            if isinstance(n, ast.ClassDef) and n.name == cls:
                nodes = n.body
                break
        else:
            raise Unsupported("class %s not found" % cls)
    for n in nodes:
        if isinstance(n, ast.FunctionDef) and n.name == name:
            return n
    raise Unsupported("function %s not found" % name)


def is_doc(s):
    return isinstance(s, ast.Expr) and isinstance(s.value, ast.Constant) and isinstance(s.value.value, str)


# ----------------------------------------------------------------------------------------------
# types:  Z, bool, oZ (int or None), obool (bool or None), bip, iob (int or Bipartition)
# ----------------------------------------------------------------------------------------------
COQTY = {"Z": "Z", "bool": "bool", "oZ": "(option Z)", "obool": "(option bool)", "bip": "bip",
         "iob": "int_or_bip", "none": "(option Z)"}

# attributes of a Bipartition: python name -> (record field, type)
BIP_FIELDS = {
    "_split_bitmask": ("b_split", "oZ"), "_leafset_bitmask": ("b_leafset", "oZ"),
    "_tree_leafset_bitmask": ("b_tree_leafset", "oZ"), "_lowest_relevant_bit": ("b_lrb", "oZ"),
    "_is_rooted": ("b_rooted", "obool"), "is_mutable": ("b_mutable", "obool"),
}

# declared parameter types (Python is untyped: this table is part of the trusted reading)
PARAM_TYPES = {
    "leafset_bitmask": "oZ", "tree_leafset_bitmask": "oZ", "lowest_relevant_bit": "oZ", "bitmask": "oZ",
    "is_rooted": "obool", "is_mutable": "obool", "is_other_masked_for_tree_leafset": "bool",
    "compile_bipartition": "obool",
}

# static functions already translated into Gen/BitFns.v: python name -> (coq name, result type)
STATIC = {
    "least_significant_set_bit": ("py_least_significant_set_bit", "Z"),
    "normalize_bitmask": ("py_normalize_bitmask", "Z"),
    "is_compatible_bitmasks": ("py_is_compatible_bitmasks", "bool"),
    "is_trivial_bitmask": ("py_is_trivial_bitmask", "bool"),
}

BINOPS = {ast.BitAnd: "Z.land", ast.BitOr: "Z.lor", ast.BitXor: "Z.lxor", ast.LShift: "Z.shiftl",
          ast.RShift: "Z.shiftr", ast.Add: "Z.add", ast.Sub: "Z.sub"}


def join_type(a, b):
    if a == b:
        return a
    s = {a, b}
    if s == {"Z", "oZ"} or s == {"none", "oZ"} or s == {"none", "Z"}:
        return "oZ"
    if s == {"bool", "obool"}:
        return "obool"
    raise Unsupported("cannot join types %s and %s" % (a, b))


def coerce(code, src, dst):
    if src == dst:
        return code
    if (src, dst) == ("Z", "oZ") or (src, dst) == ("bool", "obool"):
        return "(Some %s)" % code
    if src == "none" and dst in ("oZ", "obool"):
        return "None"
    raise Unsupported("cannot use a %s where a %s is expected" % (src, dst))


class MethodC:
    """compile one method of Bipartition"""

    def __init__(self, cls_node, fn, other_type=None, kwargs_types=None):
        self.cls = cls_node
        self.fn = fn
        self.other_type = other_type          # type of a parameter called `other`
        self.kwargs_types = kwargs_types or {}
        self.forced = {}                      # local variable -> forced (joined) type
        self.counter = 0
        self.kw_params = []                   # (key, type) for **kwargs constructors

    # ---- helpers -----------------------------------------------------------------------------
    def fresh(self, base="v"):
        self.counter += 1
        return "%s%d" % (base, self.counter)

    def callee(self, name):
        return find_def(self.cls, name)

    def signature(self, fn):
        """[(name, type, default_code or None)] without self"""
        a = fn.args
        if a.vararg or a.kwonlyargs:
            raise Unsupported("argument form of %s" % fn.name)
        params = [x.arg for x in a.args if x.arg != "self"]
        defaults = [None] * (len(params) - len(a.defaults)) + list(a.defaults)
        out = []
        for p, d in zip(params, defaults):
            if p == "other":
                ty = self.other_type or "bip"
            else:
                ty = PARAM_TYPES.get(p)
            if ty is None:
                raise Unsupported("no declared type for parameter %s of %s" % (p, fn.name))
            dc = None
            if d is not None:
                if isinstance(d, ast.Constant) and d.value is None:
                    dc = "None"
                elif isinstance(d, ast.Constant) and isinstance(d.value, bool):
                    dc = coerce("true" if d.value else "false", "bool", ty)
                elif isinstance(d, ast.Constant) and isinstance(d.value, int):
                    dc = coerce("(%d)" % d.value, "Z", ty)
                else:
                    raise Unsupported("default of %s" % p)
            out.append((p, ty, dc))
        return out

    # ---- expressions: returns (binds, code, type); binds = [(var, option-code)] need_int ---------
    def expr(self, e, env):
        if isinstance(e, ast.Constant):
            if e.value is None:
                return [], "None", "none"
            if isinstance(e.value, bool):
                return [], ("true" if e.value else "false"), "bool"
            if isinstance(e.value, int):
                return [], "(%d)" % e.value, "Z"
            raise Unsupported("constant %r" % (e.value,))
        if isinstance(e, ast.Name):
            if e.id not in env:
                raise Unsupported("unknown name %s" % e.id)
            return [], env[e.id][0], env[e.id][1]
        if isinstance(e, ast.Attribute):
            b, code, ty = self.expr(e.value, env)
            if ty == "bip" and e.attr in BIP_FIELDS:
                f, fty = BIP_FIELDS[e.attr]
                return b, "(%s %s)" % (f, code), fty
            raise Unsupported("attribute %s of a %s" % (e.attr, ty))
        if isinstance(e, ast.BinOp):
            op = BINOPS.get(type(e.op))
            if not op:
                raise Unsupported("operator %s" % type(e.op).__name__)
            b1, c1 = self.as_int(e.left, env)
            b2, c2 = self.as_int(e.right, env)
            return b1 + b2, "(%s %s %s)" % (op, c1, c2), "Z"
        if isinstance(e, ast.UnaryOp) and isinstance(e.op, ast.Invert):
            b1, c1 = self.as_int(e.operand, env)
            return b1, "(Z.lnot %s)" % c1, "Z"
        if isinstance(e, ast.UnaryOp) and isinstance(e.op, ast.Not):
            b1, c1 = self.cond(e.operand, env)
            return b1, "(negb %s)" % c1, "bool"
        if isinstance(e, ast.Compare):
            b1, c1 = self.cond(e, env)
            return b1, c1, "bool"
        if isinstance(e, ast.Call):
            return self.call_expr(e, env)
        raise Unsupported("expression %s" % type(e).__name__)

    def as_int(self, e, env):
        b, code, ty = self.expr(e, env)
        if ty == "Z":
            return b, code
        if ty in ("oZ", "none"):
            v = self.fresh()
            return b + [(v, coerce(code, ty, "oZ"))], v
        raise Unsupported("a %s used as an int" % ty)

    def cond(self, e, env):
        """truth value: (binds, bool code)"""
        if isinstance(e, ast.BoolOp):
            f = "andb" if isinstance(e.op, ast.And) else "orb"
            parts = []
            for i, v in enumerate(e.values):
                b, c = self.cond(v, env)
                if b and i > 0:
                    raise Unsupported("a short-circuited operand that can raise")
                parts.append((b, c))
            out = parts[-1][1]
            for _b, c in reversed(parts[:-1]):
                out = "(%s %s %s)" % (f, c, out)
            return parts[0][0], out
        if isinstance(e, ast.UnaryOp) and isinstance(e.op, ast.Not):
            b, c = self.cond(e.operand, env)
            return b, "(negb %s)" % c
        if isinstance(e, ast.Compare):
            if len(e.ops) != 1:
                raise Unsupported("chained comparison")
            op, rhs = e.ops[0], e.comparators[0]
            if isinstance(op, (ast.Is, ast.IsNot)):
                if not (isinstance(rhs, ast.Constant) and rhs.value is None):
                    raise Unsupported("`is` against something else than None")
                b, code, ty = self.expr(e.left, env)
                if ty not in ("oZ", "obool", "none"):
                    raise Unsupported("`is None` on a %s" % ty)
                c = "(is_none %s)" % coerce(code, ty, "oZ" if ty == "none" else ty)
                return b, (c if isinstance(op, ast.Is) else "(negb %s)" % c)
            cmp = {ast.Eq: "Z.eqb", ast.NotEq: None, ast.Lt: "Z.ltb", ast.LtE: "Z.leb",
                   ast.Gt: "Z.gtb", ast.GtE: "Z.geb"}
            if type(op) not in cmp:
                raise Unsupported("comparison %s" % type(op).__name__)
            b1, c1 = self.as_int(e.left, env)
            b2, c2 = self.as_int(rhs, env)
            if isinstance(op, ast.NotEq):
                return b1 + b2, "(negb (Z.eqb %s %s))" % (c1, c2)
            return b1 + b2, "(%s %s %s)" % (cmp[type(op)], c1, c2)
        b, code, ty = self.expr(e, env)
        if ty == "bool":
            return b, code
        if ty == "Z":
            return b, "(negb (Z.eqb %s 0))" % code
        if ty == "oZ":
            return b, "(truthy_oz %s)" % code
        if ty == "obool":
            return b, "(truthy_ob %s)" % code
        if ty == "none":
            return b, "false"
        raise Unsupported("truth value of a %s" % ty)

    def call_expr(self, e, env):
        f = e.func
        # kwargs.get("key", default)
        if (isinstance(f, ast.Attribute) and f.attr == "get" and isinstance(f.value, ast.Name)
                and f.value.id == "kwargs" and "kwargs" in env and len(e.args) == 2 and not e.keywords
                and isinstance(e.args[0], ast.Constant) and isinstance(e.args[0].value, str)):
            key = e.args[0].value
            ty = self.kwargs_types.get(key)
            if ty is None:
                raise Unsupported("no declared type for keyword %s" % key)
            if (key, ty) not in self.kw_params:
                self.kw_params.append((key, ty))
            b, dc, dty = self.expr(e.args[1], env)
            return b, "(kw_get kw_%s %s)" % (key, coerce(dc, dty, ty)), ty
        # static functions: Bipartition.f(...), bitprocessing.f(...)
        if (isinstance(f, ast.Attribute) and isinstance(f.value, ast.Name)
                and f.value.id in ("Bipartition", "bitprocessing") and f.attr in STATIC):
            cname, rty = STATIC[f.attr]
            if f.value.id == "Bipartition":
                params = [x.arg for x in self.callee(f.attr).args.args]
            else:
                params = None
            args = list(e.args)
            if e.keywords:
                if params is None:
                    raise Unsupported("keywords on %s" % f.attr)
                slots = {p: None for p in params}
                for p, a in zip(params, args):
                    slots[p] = a
                for k in e.keywords:
                    if k.arg not in slots or slots[k.arg] is not None:
                        raise Unsupported("keyword %s of %s" % (k.arg, f.attr))
                    slots[k.arg] = k.value
                if any(v is None for v in slots.values()):
                    raise Unsupported("missing argument of %s" % f.attr)
                args = [slots[p] for p in params]
            elif params is not None and len(args) != len(params):
                raise Unsupported("arity of %s" % f.attr)
            binds, codes = [], []
            for a in args:
                b, c = self.as_int(a, env)
                binds += b
                codes.append(c)
            return binds, "(%s %s)" % (cname, " ".join(codes)), rty
        raise Unsupported("call %s" % ast.dump(f)[:100])

    def method_call(self, e, env):
        """self.m(args) -> (binds, code of type res (bip * R), R)"""
        f = e.func
        if not (isinstance(f, ast.Attribute) and isinstance(f.value, ast.Name) and f.value.id == "self"):
            raise Unsupported("call %s" % ast.dump(f)[:100])
        callee = self.callee(f.attr)
        sig = self.signature(callee)
        slots = {p: None for p, _t, _d in sig}
        for (p, _t, _d), a in zip(sig, e.args):
            slots[p] = a
        if len(e.args) > len(sig):
            raise Unsupported("too many arguments for %s" % f.attr)
        for k in e.keywords:
            if k.arg not in slots or slots[k.arg] is not None:
                raise Unsupported("keyword %s of %s" % (k.arg, f.attr))
            slots[k.arg] = k.value
        binds, codes = [], []
        for p, ty, dc in sig:
            if slots[p] is None:
                if dc is None:
                    raise Unsupported("missing argument %s of %s" % (p, f.attr))
                codes.append(dc)
            else:
                b, c, t = self.expr(slots[p], env)
                binds += b
                codes.append(coerce(c, t, ty))
        return binds, "(gen_%s %s %s)" % (f.attr, env["self"][0], " ".join(codes)), RETURNS[f.attr]

    # ---- statements ----------------------------------------------------------------------------
    @staticmethod
    def wrap(binds, code):
        for v, oc in reversed(binds):
            code = "(do %s <- need_int %s;;\n  %s)" % (v, oc, code)
        return code

    def always_returns(self, stmts):
        for s in stmts:
            if isinstance(s, ast.Return):
                return True
            if isinstance(s, ast.If) and s.orelse and self.always_returns(s.body) and self.always_returns(s.orelse):
                return True
        return False

    def assigned(self, stmts):
        out = []
        for s in stmts:
            if isinstance(s, ast.Assign):
                for t in s.targets:
                    if isinstance(t, ast.Name) and t.id not in out:
                        out.append(t.id)
            elif isinstance(s, ast.If):
                for v in self.assigned(s.body) + self.assigned(s.orelse):
                    if v not in out:
                        out.append(v)
        return out

    def bind_local(self, name, code, ty, env):
        want = self.forced.get(name)
        if name in env and env[name][1] != ty and want is None:
            raise Widen(name, join_type(env[name][1], ty))
        if want is not None:
            if join_type(want, ty) != want:
                raise Widen(name, join_type(want, ty))
            code, ty = coerce(code, ty, want), want
        env = dict(env)
        env[name] = (name, ty)
        return code, env

    def block(self, stmts, env, k):
        """k(env) -> code for what follows the statements (None: the function ends here)"""
        if not stmts:
            return k(env)
        s, rest = stmts[0], stmts[1:]
        if is_doc(s):
            return self.block(rest, env, k)
        if isinstance(s, ast.Assert):
            b, c = self.cond(s.test, env)
            return self.wrap(b, "(if negb %s then Err AssertErr else\n  %s)" % (c, self.block(rest, env, k)))
        if isinstance(s, ast.Return):
            if s.value is None:
                b, code, ty = [], "None", "none"
            else:
                b, code, ty = self.expr(s.value, env)
            rt = self.ret_type
            if rt is None:
                raise Unsupported("return type not declared")
            return self.wrap(b, "Ok (%s, %s)" % (env["self"][0], coerce(code, ty, rt)))
        if isinstance(s, ast.Assign):
            if len(s.targets) != 1:
                raise Unsupported("multiple assignment")
            t = s.targets[0]
            if isinstance(s.value, ast.Call) and isinstance(s.value.func, ast.Attribute) \
                    and isinstance(s.value.func.value, ast.Name) and s.value.func.value.id == "self":
                raise Unsupported("result of a method call assigned")
            b, code, ty = self.expr(s.value, env)
            if isinstance(t, ast.Attribute) and isinstance(t.value, ast.Name) and t.value.id == "self":
                if t.attr not in BIP_FIELDS:
                    raise Unsupported("assignment to self.%s" % t.attr)
                f, fty = BIP_FIELDS[t.attr]
                return self.wrap(b, "(let self := set_%s %s self in\n  %s)"
                                 % (f, coerce(code, ty, fty), self.block(rest, env, k)))
            if isinstance(t, ast.Name):
                code, env2 = self.bind_local(t.id, code, ty, env)
                return self.wrap(b, "(let %s := %s in\n  %s)" % (t.id, code, self.block(rest, env2, k)))
            raise Unsupported("assignment target")
        if isinstance(s, ast.Expr) and isinstance(s.value, ast.Call):
            b, code, _rt = self.method_call(s.value, env)
            return self.wrap(b, "(do r_ <- %s;;\n  let self := fst r_ in\n  %s)" % (code, self.block(rest, env, k)))
        if isinstance(s, ast.If):
            return self.if_stmt(s, rest, env, k)
        raise Unsupported("statement %s" % type(s).__name__)

    def if_stmt(self, s, rest, env, k):
        # isinstance(x, int): narrowing match
        t = s.test
        if (isinstance(t, ast.Call) and isinstance(t.func, ast.Name) and t.func.id == "isinstance"
                and len(t.args) == 2 and isinstance(t.args[0], ast.Name) and isinstance(t.args[1], ast.Name)
                and t.args[1].id == "int" and env.get(t.args[0].id, (None, None))[1] == "iob"):
            x = t.args[0].id
            env_i = dict(env); env_i[x] = (x + "_int", "Z")
            env_b = dict(env); env_b[x] = (x + "_obj", "bip")
            mk = lambda a, b: "(match %s with\n  | IsInt %s_int => %s\n  | IsBip %s_obj => %s\n  end)" % (env[x][0], x, a, x, b)
            return self.branches(s, rest, env, k, [], mk, env_i, env_b, restore={x: env[x]})
        b, c = self.cond(t, env)
        mk = lambda a, bb: "(if %s then %s\n  else %s)" % (c, a, bb)
        return self.branches(s, rest, env, k, b, mk, env, env, restore={})

    def branches(self, s, rest, env, k, binds, mk, env_t, env_e, restore):
        if self.always_returns(s.body):
            return self.wrap(binds, mk(self.block(s.body, env_t, None_k), self.block(list(s.orelse) + rest, env_e, k)))
        if s.orelse and self.always_returns(s.orelse):
            return self.wrap(binds, mk(self.block(list(s.body) + rest, env_t, k), self.block(s.orelse, env_e, None_k)))
        # join: the branches only change self and local variables
        vs = self.assigned(s.body) + [v for v in self.assigned(s.orelse) if v not in self.assigned(s.body)]
        types = {}

        def tail(e2):
            for v in vs:
                if v not in e2:
                    raise Unsupported("variable %s is not assigned on every path" % v)
                if v in types and types[v] != e2[v][1]:
                    raise Widen(v, join_type(types[v], e2[v][1]))
                types[v] = e2[v][1]
            return "Ok (%s)" % ", ".join(["self"] + [e2[v][0] for v in vs])
        a = self.block(s.body, env_t, tail)
        bb = self.block(s.orelse, env_e, tail)
        env2 = dict(env)
        env2.update(restore)
        for v in vs:
            env2[v] = (v, types[v])
        if vs:
            pat = "(" + ", ".join(["self"] + vs) + ")"
        else:
            pat = "self"
        return self.wrap(binds, "(do %s <- %s;;\n  %s)" % (pat, mk(a, bb), self.block(rest, env2, k)))

    # ---- whole method ---------------------------------------------------------------------------
    def translate(self, ret_type, name=None, constructor=False):
        self.ret_type = ret_type
        fn = self.fn
        for _ in range(8):
            self.counter = 0
            self.kw_params = []
            try:
                env = {"self": ("self", "bip")}
                params = []
                if constructor:
                    if fn.args.kwarg is None or [a.arg for a in fn.args.args] != ["self"]:
                        raise Unsupported("constructor signature")
                    env["kwargs"] = ("kwargs", "kwargs")
                    sig = []
                else:
                    if fn.args.kwarg is not None:
                        raise Unsupported("**kwargs")
                    sig = self.signature(fn)
                for p, ty, _d in sig:
                    env[p] = (p, ty)
                    params.append("(%s : %s)" % (p, COQTY[ty]))

                def end(e2):
                    if constructor:
                        return "Ok (self, tt)"
                    if ret_type in ("oZ", "obool"):
                        return "Ok (self, None)"
                    raise Unsupported("function can end without returning a %s" % ret_type)
                body = self.block(fn.body, env, end)
                break
            except Widen as w:
                self.forced[w.var] = w.ty
        else:
            raise Unsupported("types do not settle in %s" % fn.name)
        if constructor:
            params = ["(kw_%s : option %s)" % (kname, COQTY[t]) for kname, t in self.kw_params]
            head = "Definition gen_%s %s : res (bip * unit) :=\n  let self := bip_blank in\n  " % (name or fn.name, " ".join(params))
        else:
            head = "Definition gen_%s (self : bip) %s : res (bip * %s) :=\n  " % (
                name or fn.name, " ".join(params), COQTY[ret_type])
        return head + body + ".\n"


def None_k(env):
    raise Unsupported("fall off the end of a returning branch")


# declared result types of the translated methods
RETURNS = {
    "compile_tree_leafset_bitmask": "oZ", "compile_leafset_bitmask": "oZ", "compile_split_bitmask": "oZ",
    "is_compatible_with": "bool", "is_nested_within": "bool", "is_leafset_nested_within": "bool",
    "is_trivial": "bool",
}

INIT_KW = {"bitmask": "oZ", "leafset_bitmask": "oZ", "tree_leafset_bitmask": "oZ", "is_rooted": "obool",
           "is_mutable": "obool", "compile_bipartition": "obool"}


def gen_bipartition_methods(bp_tree):
    cls = None
    for n in bp_tree.body:
        if isinstance(n, ast.ClassDef) and n.name == "Bipartition":
            cls = n
    if cls is None:
        raise Unsupported("class Bipartition not found")
    out = []
    plan = [("compile_tree_leafset_bitmask", None), ("compile_leafset_bitmask", None),
            ("compile_split_bitmask", None), ("is_compatible_with", "iob"), ("is_nested_within", "bip"),
            ("is_leafset_nested_within", "iob"), ("is_trivial", None)]
    for name, other in plan:
        fn = find_def(cls, name)
        out.append("(* Bipartition.%s *)" % (name,))
        out.append(MethodC(cls, fn, other_type=other).translate(RETURNS[name]))
    fn = find_def(cls, "__init__")
    out.append("(* Bipartition.__init__ *)")
    out.append(MethodC(cls, fn, kwargs_types=INIT_KW).translate(None, name="init", constructor=True))
    return out



# ----------------------------------------------------------------------------------------------
# Tree.encode_bipartitions
# ----------------------------------------------------------------------------------------------
def D(e):
    return ast.dump(e).replace("ctx=Store()", "ctx=Load()")


def parse_expr(txt):
    return ast.parse(txt, mode="eval").body


def same(e, txt):
    return D(e) == D(parse_expr(txt))


class EncodeC:
    """The loop body of encode_bipartitions, statement by statement, over the node view `nd` and the
    iteration state `st` (C01GenPrims.vstate); `leafset_bitmask` and the other int locals are lets.
    Value expressions understood (everything else raises):
       <int local> | <int literal> | len(child_nodes) | head_node.edge.length | child_nodes[0].edge.length
       | self._is_rooted | suppress_unifurcations | child.edge.bipartition._leafset_bitmask (loop variable)
       | taxon_namespace.taxon_bitmask(taxon) | head_node._parent_node (only `is [not] None`)"""

    def __init__(self, bip_cls, loop):
        self.bip_cls = bip_cls
        self.loop = loop
        self.counter = 0

    def fresh(self, b="w"):
        self.counter += 1
        return "%s%d" % (b, self.counter)

    # env: name -> (kind, code)   kinds: Z bool obool olen otaxon node edge children child tree_edges ns
    def expr(self, e, env):
        """-> (binds, code, kind); binds = [(var, res-code)] monadic binds"""
        if isinstance(e, ast.Constant) and isinstance(e.value, int) and not isinstance(e.value, bool):
            return [], "(%d)" % e.value, "Z"
        if isinstance(e, ast.Constant) and e.value is None:
            return [], "None", "none"
        if isinstance(e, ast.Name):
            if e.id not in env:
                raise Unsupported("unknown name %s" % e.id)
            k, c = env[e.id]
            return [], c, k
        if isinstance(e, ast.Call) and isinstance(e.func, ast.Name) and e.func.id == "len" and len(e.args) == 1:
            b, c, k = self.expr(e.args[0], env)
            if k != "children":
                raise Unsupported("len of a %s" % k)
            return b, "(py_len %s)" % c, "Z"
        if isinstance(e, ast.Subscript):
            b, c, k = self.expr(e.value, env)
            if k == "children" and isinstance(e.slice, ast.Constant) and e.slice.value == 0:
                return b, "child0", "child0"
            raise Unsupported("subscript %s" % D(e)[:80])
        if isinstance(e, ast.Attribute):
            b, c, k = self.expr(e.value, env)
            if k == "edge" and e.attr == "_head_node":
                return b, c, "node"
            if k == "node" and e.attr == "edge":
                return b, c, "edge"
            if k == "edge" and e.attr == "length":
                return b, "(nv_length %s)" % c, "olen"
            if k == "node" and e.attr == "_child_nodes":
                return b, "(nv_children %s)" % c, "children"
            if k == "node" and e.attr == "taxon":
                return b, "(nv_taxon %s)" % c, "otaxon"
            if k == "node" and e.attr == "_parent_node":
                return b, "(nv_has_parent %s)" % c, "parentflag"
            if k == "child0" and e.attr == "edge":
                return b, c, "child0edge"
            if k == "child0edge" and e.attr == "length":
                v = self.fresh()
                return b + [(v, "child0_length st (nv_children nd)")], v, "olen"
            if k == "child" and e.attr == "edge":
                return b, c, "childedge"
            if k == "childedge" and e.attr == "bipartition":
                return b, "(vc_bip %s)" % c, "bip"
            if k == "bip" and e.attr in BIP_FIELDS:
                f, fty = BIP_FIELDS[e.attr]
                return b, "(%s %s)" % (f, c), fty
            if k == "self" and e.attr == "_is_rooted":
                return b, "self_is_rooted", "obool"
            raise Unsupported("attribute %s of a %s" % (e.attr, k))
        if (isinstance(e, ast.Call) and isinstance(e.func, ast.Attribute) and e.func.attr == "taxon_bitmask"
                and len(e.args) == 1 and not e.keywords):
            b0, c0, k0 = self.expr(e.func.value, env)
            b1, c1, k1 = self.expr(e.args[0], env)
            if k0 != "ns" or k1 != "taxon":
                raise Unsupported("taxon_bitmask(%s) on a %s" % (k1, k0))
            return b0 + b1, "(gen_taxon_bitmask (acc %s))" % c1, "Z"
        if isinstance(e, ast.BinOp) and type(e.op) in BINOPS:
            b1, c1 = self.as_int(e.left, env)
            b2, c2 = self.as_int(e.right, env)
            return b1 + b2, "(%s %s %s)" % (BINOPS[type(e.op)], c1, c2), "Z"
        raise Unsupported("expression %s" % D(e)[:100])

    def as_int(self, e, env):
        b, c, k = self.expr(e, env)
        if k == "Z":
            return b, c
        if k == "oZ":
            v = self.fresh()
            return b + [(v, "need_int %s" % c)], v
        raise Unsupported("a %s used as an int" % k)

    def cond(self, e, env):
        if isinstance(e, ast.BoolOp):
            f = "andb" if isinstance(e.op, ast.And) else "orb"
            parts = [self.cond(v, env) for v in e.values]
            if any(b for b, _c in parts[1:]):
                raise Unsupported("a short-circuited operand that can raise")
            out = parts[-1][1]
            for _b, c in reversed(parts[:-1]):
                out = "(%s %s %s)" % (f, c, out)
            return parts[0][0], out
        if isinstance(e, ast.UnaryOp) and isinstance(e.op, ast.Not):
            b, c = self.cond(e.operand, env)
            return b, "(negb %s)" % c
        if isinstance(e, ast.Compare) and len(e.ops) == 1:
            op, rhs = e.ops[0], e.comparators[0]
            if isinstance(op, (ast.Is, ast.IsNot)) and isinstance(rhs, ast.Constant) and rhs.value is None:
                b, c, k = self.expr(e.left, env)
                if k == "parentflag":
                    t = "(negb %s)" % c        # `_parent_node is None`
                elif k in ("olen", "otaxon", "obool", "oZ"):
                    t = "(is_none %s)" % c
                else:
                    raise Unsupported("`is None` on a %s" % k)
                return b, (t if isinstance(op, ast.Is) else "(negb %s)" % t)
            cmp = {ast.Eq: "Z.eqb", ast.Lt: "Z.ltb", ast.LtE: "Z.leb", ast.Gt: "Z.gtb", ast.GtE: "Z.geb"}
            if type(op) in cmp or isinstance(op, ast.NotEq):
                b1, c1 = self.as_int(e.left, env)
                b2, c2 = self.as_int(rhs, env)
                if isinstance(op, ast.NotEq):
                    return b1 + b2, "(negb (Z.eqb %s %s))" % (c1, c2)
                return b1 + b2, "(%s %s %s)" % (cmp[type(op)], c1, c2)
        b, c, k = self.expr(e, env)
        if k == "bool":
            return b, c
        if k == "Z":
            return b, "(negb (Z.eqb %s 0))" % c
        if k == "obool":
            return b, "(truthy_ob %s)" % c
        if k == "node":
            return b, "true"           # Node defines neither __bool__ nor __len__
        raise Unsupported("truth value of a %s" % k)

    @staticmethod
    def wrap(binds, code):
        for v, rc in reversed(binds):
            code = "(do %s <- %s;;\n  %s)" % (v, rc, code)
        return code

    def assigned(self, stmts):
        out = []
        for s in stmts:
            if isinstance(s, (ast.Assign, ast.AugAssign)):
                ts = s.targets if isinstance(s, ast.Assign) else [s.target]
                for t in ts:
                    if isinstance(t, ast.Name) and t.id not in out:
                        out.append(t.id)
            elif isinstance(s, ast.If):
                for v in self.assigned(s.body) + self.assigned(s.orelse):
                    if v not in out:
                        out.append(v)
            elif isinstance(s, ast.For):
                for v in self.assigned(s.body):
                    if v not in out:
                        out.append(v)
        return out

    def splice(self, s, env):
        """the statement that takes head_node out of the tree and puts child_nodes[0] in its place"""
        want_then = ["parent = head_node._parent_node",
                     "pos = parent._child_nodes.index(head_node)",
                     "parent.remove_child(head_node)",
                     "parent.insert_child(index=pos, node=child_nodes[0])",
                     "head_node._parent_node = None"]
        want_else = ["child_nodes[0]._parent_node = None", "self.seed_node = child_nodes[0]"]

        def shape(stmts, want):
            return len(stmts) == len(want) and all(D(a) == D(ast.parse(w).body[0]) for a, w in zip(stmts, want))
        if not (shape(s.body, want_then) and shape(s.orelse, want_else)):
            raise Unsupported("the removal of a unifurcation node is not the recognised remove_child / "
                              "insert_child(index=pos, node=child_nodes[0]) / seed replacement")
        if env.get("head_node", (None,))[0] != "node" or env.get("child_nodes", (None,))[0] != "children":
            raise Unsupported("head_node / child_nodes are not what they are expected to be")

    def block(self, stmts, env, k):
        if not stmts:
            return k(env)
        s, rest = stmts[0], stmts[1:]
        if is_doc(s):
            return self.block(rest, env, k)
        # ---- assignments ------------------------------------------------------------------
        if isinstance(s, ast.Assign) and len(s.targets) == 1:
            t = s.targets[0]
            if isinstance(t, ast.Name):
                b, c, kd = self.expr(s.value, env)
                env2 = dict(env)
                if kd in ("node", "edge", "children", "ns"):
                    env2[t.id] = (kd, c)
                    return self.wrap(b, self.block(rest, env2, k))
                if kd == "otaxon":
                    env2[t.id] = ("otaxon", t.id)
                elif kd in ("Z", "obool", "olen"):
                    if t.id in env and env[t.id][0] != kd:
                        raise Unsupported("variable %s changes its type" % t.id)
                    env2[t.id] = (kd, t.id)
                else:
                    raise Unsupported("assignment of a %s" % kd)
                return self.wrap(b, "(let %s := %s in\n  %s)" % (t.id, c, self.block(rest, env2, k)))
            # child_nodes[0].edge.length = <olen>
            if same(t, "child_nodes[0].edge.length"):
                b, c, kd = self.expr(s.value, env)
                if kd != "olen":
                    raise Unsupported("edge length assigned a %s" % kd)
                return self.wrap(b, "(let st := vs_set_child_length %s st in\n  %s)" % (c, self.block(rest, env, k)))
            # edge.bipartition = _bipartition.Bipartition(<kwargs>)
            if same(t, "edge.bipartition") and isinstance(s.value, ast.Call) and not s.value.args \
                    and D(s.value.func) in (D(parse_expr("_bipartition.Bipartition")), D(parse_expr("Bipartition"))):
                kws = {}
                for kw in s.value.keywords:
                    if kw.arg not in INIT_KW:
                        raise Unsupported("keyword %s of Bipartition()" % kw.arg)
                    if not isinstance(kw.value, ast.Constant):
                        raise Unsupported("non-constant keyword of Bipartition()")
                    v = kw.value.value
                    ty = INIT_KW[kw.arg]
                    if v is None:
                        kws[kw.arg] = "(Some None)"
                    elif isinstance(v, bool) and ty == "obool":
                        kws[kw.arg] = "(Some (Some %s))" % ("true" if v else "false")
                    elif isinstance(v, int) and not isinstance(v, bool) and ty == "oZ":
                        kws[kw.arg] = "(Some (Some (%d)))" % v
                    else:
                        raise Unsupported("keyword value of Bipartition()")
                args = " ".join(kws.get(key, "None") for key in self.init_order)
                v = self.fresh("b")
                return "(do %s <- gen_init %s;;\n  let st := vs_set_bip (fst %s) st in\n  %s)" % (
                    v, args, v, self.block(rest, env, k))
            # edge.bipartition.<attr> = value
            if (isinstance(t, ast.Attribute) and same(t.value, "edge.bipartition") and t.attr in BIP_FIELDS):
                f, fty = BIP_FIELDS[t.attr]
                b, c, kd = self.expr(s.value, env)
                return self.wrap(b, "(do st <- vs_update_bip (set_%s %s) st;;\n  %s)"
                                 % (f, coerce(c, kd, fty), self.block(rest, env, k)))
            raise Unsupported("assignment %s" % D(t)[:80])
        if isinstance(s, ast.AugAssign):
            t = s.target
            if isinstance(t, ast.Name) and env.get(t.id, (None,))[0] == "Z" and type(s.op) in BINOPS:
                b, c = self.as_int(s.value, env)
                return self.wrap(b, "(let %s := (%s %s %s) in\n  %s)" % (t.id, BINOPS[type(s.op)], t.id, c, self.block(rest, env, k)))
            if same(t, "child_nodes[0].edge.length") and isinstance(s.op, ast.Add):
                b1, c1, k1 = self.expr(t, env)
                b2, c2, k2 = self.expr(s.value, env)
                if k2 != "olen":
                    raise Unsupported("edge length += a %s" % k2)
                v = self.fresh()
                return self.wrap(b1 + b2 + [(v, "len_add %s %s" % (c1, c2))],
                                 "(let st := vs_set_child_length %s st in\n  %s)" % (v, self.block(rest, env, k)))
            raise Unsupported("augmented assignment %s" % D(t)[:80])
        # ---- tree_edges.append(edge) ------------------------------------------------------
        if isinstance(s, ast.Expr) and same(s.value, "tree_edges.append(edge)"):
            return "(let st := vs_append st in\n  %s)" % self.block(rest, env, k)
        # ---- for child in child_nodes: <int local> op= <int expr of child> ----------------
        if isinstance(s, ast.For) and not s.orelse and isinstance(s.target, ast.Name):
            b, c, kd = self.expr(s.iter, env)
            if kd != "children" or b:
                raise Unsupported("for over a %s" % kd)
            if not (len(s.body) == 1 and isinstance(s.body[0], ast.AugAssign) and isinstance(s.body[0].target, ast.Name)
                    and env.get(s.body[0].target.id, (None,))[0] == "Z" and type(s.body[0].op) in BINOPS):
                raise Unsupported("body of the for over the children")
            accu = s.body[0].target.id
            env_c = dict(env)
            env_c[s.target.id] = ("child", s.target.id)
            bb, cc = self.as_int(s.body[0].value, env_c)
            op = BINOPS[type(s.body[0].op)]
            # the operand may raise (None leafset): fold in the res monad
            step = self.wrap(bb, "Ok (%s %s %s)" % (op, accu, cc))
            return "(do %s <- fold_left (fun acc_ %s => do %s <- acc_;; %s) %s (Ok %s);;\n  %s)" % (
                accu, s.target.id, accu, step, c, accu, self.block(rest, env, k))
        # ---- if ----------------------------------------------------------------------------
        if isinstance(s, ast.If):
            if same(s.test, "head_node._parent_node is not None"):
                self.splice(s, env)
                b, c = self.cond(s.test, env)
                return self.wrap(b, "(let st := (if %s then vs_splice st else vs_splice st) in\n  %s)"
                                 % (c, self.block(rest, env, k)))
            # `if taxon:` narrows an optional taxon
            if isinstance(s.test, ast.Name) and env.get(s.test.id, (None,))[0] == "otaxon" and not s.orelse:
                x = s.test.id
                env_t = dict(env)
                env_t[x] = ("taxon", x + "_")
                vs = self.assigned(s.body)
                tail = lambda e2: "Ok (%s)" % ", ".join(["st"] + vs)
                a = self.block(s.body, env_t, tail)
                pat = "(" + ", ".join(["st"] + vs) + ")" if vs else "st"
                return "(do %s <- (match %s with\n  | Some %s_ => %s\n  | None => Ok (%s)\n  end);;\n  %s)" % (
                    pat, env[x][1], x, a, ", ".join(["st"] + vs), self.block(rest, env, k))
            b, c = self.cond(s.test, env)
            vs = self.assigned(s.body) + [v for v in self.assigned(s.orelse) if v not in self.assigned(s.body)]
            vs = [v for v in vs if v in env and env[v][0] in ("Z", "obool", "olen")] + \
                 [v for v in vs if v not in env]
            live = [v for v in vs if v in env]          # variables defined before the branch survive it
            tail = lambda e2: "Ok (%s)" % ", ".join(["st"] + live)
            a = self.block(s.body, env, tail)
            bb = self.block(s.orelse, env, tail)
            pat = "(" + ", ".join(["st"] + live) + ")" if live else "st"
            return self.wrap(b, "(do %s <- (if %s then %s\n  else %s);;\n  %s)" % (pat, c, a, bb, self.block(rest, env, k)))
        raise Unsupported("statement %s in the loop body" % type(s).__name__)

    def visit_function(self):
        loop = self.loop
        if not (isinstance(loop.target, ast.Name) and loop.target.id == "edge"
                and same(loop.iter, "self.postorder_edge_iter()") and not loop.orelse):
            raise Unsupported("the loop over the edges")
        cls = self.bip_cls
        init = find_def(cls, "__init__")
        m = MethodC(cls, init, kwargs_types=INIT_KW)
        m.translate(None, name="init", constructor=True)
        self.init_order = [kname for kname, _t in m.kw_params]
        env = {"edge": ("edge", "nd"), "self": ("self", "self"), "taxon_namespace": ("ns", "ns"),
               "suppress_unifurcations": ("bool", "suppress_unifurcations"), "tree_edges": ("tree_edges", "")}
        body = self.block(loop.body, env, lambda e2: "finish_visit nd st")
        return ("Definition gen_encode_visit (suppress_unifurcations : bool) (acc : Z -> Z) (self_is_rooted : option bool)\n"
                "  (nd : nview) : res vchild :=\n  let st := vs_init in\n  " + body + ".\n")


def gen_taxon_fns(tx_tree):
    """TaxonNamespace.taxon_bitmask (through its cache) and all_taxa_bitmask as functions of the
    accession index / the accession count"""
    cls = None
    for n in tx_tree.body:
        if isinstance(n, ast.ClassDef) and n.name == "TaxonNamespace":
            cls = n
    if cls is None:
        raise Unsupported("class TaxonNamespace not found")
    out = []
    fn = find_def(cls, "taxon_bitmask")
    body = [s for s in fn.body if not is_doc(s)]
    if not (len(body) == 1 and isinstance(body[0], ast.Try) and len(body[0].handlers) == 1
            and same(body[0].handlers[0].type, "KeyError") and len(body[0].body) == 1
            and D(body[0].body[0]) == D(ast.parse("return self._taxon_bitmask_map[taxon]").body[0])):
        raise Unsupported("taxon_bitmask: cache lookup shape")
    h = body[0].handlers[0].body
    # i = self._taxon_accession_index_map[taxon]; m = <expr of i>; self._taxon_bitmask_map[taxon] = m; return m
    if not (len(h) == 4 and D(h[0]) == D(ast.parse("i = self._taxon_accession_index_map[taxon]").body[0])
            and isinstance(h[1], ast.Assign) and isinstance(h[1].targets[0], ast.Name)
            and D(h[2]) == D(ast.parse("self._taxon_bitmask_map[taxon] = %s" % h[1].targets[0].id).body[0])
            and D(h[3]) == D(ast.parse("return %s" % h[1].targets[0].id).body[0])):
        raise Unsupported("taxon_bitmask: the computed value is not what is cached and returned")
    from dv.py2coq import IntFn
    f = IntFn(fn, {})
    f.types = {"i": "Z"}
    code = f.as_z(h[1].value)
    out.append("(* TaxonNamespace.taxon_bitmask: i = accession index of the taxon *)")
    out.append("Definition gen_taxon_bitmask (i : Z) : Z :=\n  let %s := %s in\n  %s.\n" % (h[1].targets[0].id, code, h[1].targets[0].id))
    fn = find_def(cls, "all_taxa_bitmask")
    body = [s for s in fn.body if not is_doc(s)]
    f = IntFn(fn, {})
    f.types = {"current_accession_count": "Z"}
    f.rty = None
    # self._current_accession_count is the only attribute read
    class R(ast.NodeTransformer):
        def visit_Attribute(self, n):
            if same(n, "self._current_accession_count"):
                return ast.Name(id="current_accession_count", ctx=ast.Load())
            raise Unsupported("all_taxa_bitmask reads %s" % D(n)[:60])
    body = [R().visit(s) for s in body]
    code = f.block(body, None)
    out.append("(* TaxonNamespace.all_taxa_bitmask *)")
    out.append("Definition gen_all_taxa_bitmask (current_accession_count : Z) : Z :=\n  %s.\n" % code)
    return out


def gen_encode(tree_mod, bip_cls):
    cls = None
    for n in tree_mod.body:
        if isinstance(n, ast.ClassDef) and n.name == "Tree":
            cls = n
    if cls is None:
        raise Unsupported("class Tree not found")
    out = []
    # ---- _compile_(im)mutable_bipartition_for_edge --------------------------------------------
    csb = find_def(bip_cls, "compile_split_bitmask")
    m = MethodC(bip_cls, csb)
    sig = m.signature(csb)
    for name in ("_compile_mutable_bipartition_for_edge", "_compile_immutable_bipartition_for_edge"):
        fn = find_def(cls, name)
        body = [s for s in fn.body if not is_doc(s)]
        if not (len(body) == 2 and isinstance(body[0], ast.Expr) and isinstance(body[0].value, ast.Call)
                and same(body[0].value.func, "edge.bipartition.compile_split_bitmask") and not body[0].value.args
                and D(body[1]) == D(ast.parse("return edge.bipartition").body[0])):
            raise Unsupported("%s: shape" % name)
        slots = {p: dc for p, _t, dc in sig}
        for kw in body[0].value.keywords:
            if kw.arg not in slots:
                raise Unsupported("%s: keyword %s" % (name, kw.arg))
            ty = dict((p, t) for p, t, _d in sig)[kw.arg]
            if same(kw.value, "self.seed_node.edge.bipartition._leafset_bitmask"):
                slots[kw.arg] = coerce("seed_leafset", "oZ", ty)
            elif isinstance(kw.value, ast.Constant) and isinstance(kw.value.value, bool):
                slots[kw.arg] = coerce("true" if kw.value.value else "false", "bool", ty)
            elif isinstance(kw.value, ast.Constant) and kw.value.value is None:
                slots[kw.arg] = "None"
            else:
                raise Unsupported("%s: argument %s" % (name, kw.arg))
        if any(v is None for v in slots.values()):
            raise Unsupported("%s: missing argument" % name)
        out.append("(* Tree.%s; seed_leafset = self.seed_node.edge.bipartition._leafset_bitmask *)" % (name,))
        out.append("Definition gen%s (seed_leafset : option Z) (edge_bipartition : bip) : res bip :=\n"
                   "  do r_ <- gen_compile_split_bitmask edge_bipartition %s;;\n  Ok (fst r_).\n"
                   % (name, " ".join(slots[p] for p, _t, _d in sig)))
    # ---- encode_bipartitions -------------------------------------------------------------------
    fn = find_def(cls, "encode_bipartitions")
    params = [a.arg for a in fn.args.args]
    want = ["self", "suppress_unifurcations", "collapse_unrooted_basal_bifurcation", "suppress_storage",
            "is_bipartitions_mutable"]
    if params != want:
        raise Unsupported("encode_bipartitions parameters %s" % params)
    body = [s for s in fn.body if not is_doc(s)]
    i = 0

    def nxt():
        nonlocal i
        if i >= len(body):
            raise Unsupported("encode_bipartitions ends early")
        i += 1
        return body[i - 1]

    def expect(stmt, txt):
        if D(stmt) != D(ast.parse(txt).body[0]):
            raise Unsupported("encode_bipartitions: expected `%s`, found `%s`" % (txt, ast.unparse(stmt)[:80]))
    expect(nxt(), "self._split_bitmask_edge_map = None")
    expect(nxt(), "self._bipartition_edge_map = None")
    expect(nxt(), "taxon_namespace = self._taxon_namespace")
    expect(nxt(), "seed_node = self.seed_node")
    s = nxt()
    if not (isinstance(s, ast.If) and not s.orelse and len(s.body) == 1 and isinstance(s.body[0], ast.Return)
            and s.body[0].value is None):
        raise Unsupported("encode_bipartitions: the guard on the seed node")
    ec = EncodeC(bip_cls, None)
    env0 = {"seed_node": ("node", "seed_node"), "self": ("self", "self"),
            "collapse_unrooted_basal_bifurcation": ("bool", "collapse_unrooted_basal_bifurcation"),
            "suppress_storage": ("bool", "suppress_storage"), "is_bipartitions_mutable": ("bool", "is_bipartitions_mutable")}

    class TopC(EncodeC):
        def expr(self, e, env):
            if same(e, "seed_node._child_nodes"):
                return [], "(t_kids t)", "children"
            return EncodeC.expr(self, e, env)
    top = TopC(bip_cls, None)
    _b, guard = top.cond(s.test, env0)
    s = nxt()
    if not (isinstance(s, ast.If) and not s.orelse and len(s.body) == 1
            and D(s.body[0]) == D(ast.parse("self.collapse_basal_bifurcation()").body[0])):
        raise Unsupported("encode_bipartitions: the basal collapse")
    cb_binds, cb_cond = top.cond(s.test, env0)
    if cb_binds:
        raise Unsupported("collapse condition can raise")
    expect(nxt(), "tree_edges = []")
    loop = nxt()
    if not isinstance(loop, ast.For):
        raise Unsupported("encode_bipartitions: the loop")
    visit = EncodeC(bip_cls, loop).visit_function()
    expect(nxt(), "tree_leafset_bitmask = self.seed_node.edge.bipartition._leafset_bitmask")
    s = nxt()
    if not (isinstance(s, ast.If) and len(s.body) == 1 and len(s.orelse) == 1
            and isinstance(s.body[0], ast.Assign) and isinstance(s.orelse[0], ast.Assign)
            and same(s.body[0].targets[0], "_compile_bipartition") and same(s.orelse[0].targets[0], "_compile_bipartition")):
        raise Unsupported("encode_bipartitions: choice of the compile function")

    def which(v):
        for nm in ("_compile_mutable_bipartition_for_edge", "_compile_immutable_bipartition_for_edge"):
            if same(v, "self." + nm):
                return "gen" + nm
        raise Unsupported("unknown compile function")
    _b, sel_c = top.cond(s.test, env0)
    compile_sel = "(if %s then %s else %s)" % (sel_c, which(s.body[0].value), which(s.orelse[0].value))
    s = nxt()
    if not isinstance(s, ast.If):
        raise Unsupported("encode_bipartitions: storage")
    _b, ss_c = top.cond(s.test, env0)

    def storage(stmts):
        """-> 'None' | 'Some' : value given to self.bipartition_encoding; every edge is compiled"""
        st = [x for x in stmts if not is_doc(x)]
        if (len(st) == 2 and D(st[0]) == D(ast.parse("self.bipartition_encoding = None").body[0])
                and D(st[1]) == D(ast.parse("for x in map(_compile_bipartition, tree_edges):\n    pass").body[0])):
            return "None"
        if len(st) == 1 and D(st[0]) == D(ast.parse("self.bipartition_encoding = list(map(_compile_bipartition, tree_edges))").body[0]):
            return "(Some (map snd compiled))"
        raise Unsupported("encode_bipartitions: what is stored")
    enc_t, enc_e = storage(s.body), storage(s.orelse)
    expect(nxt(), "return self.bipartition_encoding")
    if i != len(body):
        raise Unsupported("encode_bipartitions: trailing statements")
    out.append("(* Tree.encode_bipartitions: the loop body *)")
    out.append(visit)
    out.append("(* Tree.encode_bipartitions *)")
    out.append(
        "Definition gen_encode_bipartitions (suppress_unifurcations collapse_unrooted_basal_bifurcation suppress_storage\n"
        "  is_bipartitions_mutable : bool) (acc : Z -> Z) (self_is_rooted : option bool) (t : tree) : res (option genc) :=\n"
        "  let seed_node := t in\n"
        "  if %s then Ok None else\n"
        "  let '(t, self_is_rooted) :=\n"
        "    if %s then prim_collapse_basal_bifurcation t self_is_rooted else (t, self_is_rooted) in\n"
        "  do top <- for_postorder (gen_encode_visit suppress_unifurcations acc self_is_rooted) false t;;\n"
        "  let tree_edges := vc_entries top in\n"
        "  let tree_leafset_bitmask := b_leafset (vc_bip top) in\n"
        "  let _compile_bipartition := %s in\n"
        "  do compiled <- map_res (fun e => do b <- _compile_bipartition (b_leafset (vc_bip top)) (snd e);; Ok (fst e, b)) tree_edges;;\n"
        "  Ok (Some (mkGE (vc_tree top) self_is_rooted compiled (if %s then %s else %s))).\n"
        % (guard, cb_cond, compile_sel, ss_c, enc_t, enc_e))
    return out



# ----------------------------------------------------------------------------------------------
# Tree.from_split_bitmasks and Tree.is_compatible_with_bipartition
# ----------------------------------------------------------------------------------------------
class FromC:
    """integer expressions / tests of from_split_bitmasks over the working tree (mtree):
       names bound to Z values, <x>.edge.bipartition.leafset_bitmask -> mask of the node x,
       is_rooted (bool or None), calls of the static bit functions"""

    def __init__(self, bip_cls):
        self.bip_cls = bip_cls
        self.counter = 0

    def expr(self, e, env):
        if isinstance(e, ast.Constant) and isinstance(e.value, int) and not isinstance(e.value, bool):
            return "(%d)" % e.value
        if isinstance(e, ast.Name):
            k, c = env.get(e.id, (None, None))
            if k != "Z":
                raise Unsupported("name %s is not an int here" % e.id)
            return c
        if isinstance(e, ast.BinOp) and type(e.op) in BINOPS:
            return "(%s %s %s)" % (BINOPS[type(e.op)], self.expr(e.left, env), self.expr(e.right, env))
        if isinstance(e, ast.UnaryOp) and isinstance(e.op, ast.Invert):
            return "(Z.lnot %s)" % self.expr(e.operand, env)
        if isinstance(e, ast.Attribute) and e.attr == "leafset_bitmask" and isinstance(e.value, ast.Attribute) \
                and e.value.attr == "bipartition":
            owner = e.value.value
            if isinstance(owner, ast.Attribute) and owner.attr == "edge" and isinstance(owner.value, ast.Name):
                k, c = env.get(owner.value.id, (None, None))
                if k == "node":
                    return "(m_mask %s)" % c
            if isinstance(owner, ast.Name):
                k, c = env.get(owner.id, (None, None))
                if k == "edge_of":
                    return "(m_mask %s)" % c
                if k == "new_edge":
                    return c
            raise Unsupported("leafset_bitmask of %s" % D(owner)[:60])
        if (isinstance(e, ast.Call) and isinstance(e.func, ast.Attribute) and isinstance(e.func.value, ast.Name)
                and e.func.value.id == "bitprocessing" and e.func.attr in STATIC and not e.keywords):
            return "(%s %s)" % (STATIC[e.func.attr][0], " ".join(self.expr(a, env) for a in e.args))
        raise Unsupported("expression %s" % D(e)[:100])

    def cond(self, e, env):
        if isinstance(e, ast.BoolOp):
            f = "andb" if isinstance(e.op, ast.And) else "orb"
            parts = [self.cond(v, env) for v in e.values]
            out = parts[-1]
            for c in reversed(parts[:-1]):
                out = "(%s %s %s)" % (f, c, out)
            return out
        if isinstance(e, ast.UnaryOp) and isinstance(e.op, ast.Not):
            return "(negb %s)" % self.cond(e.operand, env)
        if isinstance(e, ast.Compare) and len(e.ops) == 1:
            op, rhs = e.ops[0], e.comparators[0]
            if isinstance(op, (ast.Is, ast.IsNot)) and isinstance(rhs, ast.Constant) and rhs.value is None \
                    and isinstance(e.left, ast.Name) and env.get(e.left.id, (None,))[0] == "node":
                # a node reached by the parent search is never None (the root covers the split)
                return "false" if isinstance(op, ast.Is) else "true"
            a, b = self.expr(e.left, env), self.expr(rhs, env)
            if isinstance(op, ast.Eq):
                return "(Z.eqb %s %s)" % (a, b)
            if isinstance(op, ast.NotEq):
                return "(negb (Z.eqb %s %s))" % (a, b)
            raise Unsupported("comparison %s" % type(op).__name__)
        if isinstance(e, ast.Name) and env.get(e.id, (None,))[0] == "obool":
            return "(truthy_ob %s)" % env[e.id][1]
        return "(negb (Z.eqb %s 0))" % self.expr(e, env)

    # ---- list-building loop:  for s in L: ... X.append(v) ...   ->  flat_map -------------------
    def appends(self, stmts, env, target):
        if not stmts:
            return "[]"
        s, rest = stmts[0], stmts[1:]
        if isinstance(s, ast.Assign) and len(s.targets) == 1 and isinstance(s.targets[0], ast.Name):
            env2 = dict(env)
            env2[s.targets[0].id] = ("Z", s.targets[0].id)
            return "(let %s := %s in\n  %s)" % (s.targets[0].id, self.expr(s.value, env), self.appends(rest, env2, target))
        if isinstance(s, ast.If):
            c = self.cond(s.test, env)
            code = "(if %s then %s\n  else %s)" % (c, self.appends(s.body, env, target), self.appends(s.orelse, env, target))
            return code if not rest else "(%s ++ %s)" % (code, self.appends(rest, env, target))
        if (isinstance(s, ast.Expr) and isinstance(s.value, ast.Call) and isinstance(s.value.func, ast.Attribute)
                and s.value.func.attr == "append" and isinstance(s.value.func.value, ast.Name)
                and s.value.func.value.id == target and len(s.value.args) == 1):
            return "(%s :: %s)" % (self.expr(s.value.args[0], env), self.appends(rest, env, target))
        raise Unsupported("statement %s in the filter loop" % type(s).__name__)


def gen_from_splits(tree_mod, bip_cls):
    cls = [n for n in tree_mod.body if isinstance(n, ast.ClassDef) and n.name == "Tree"][0]
    fn = find_def(cls, "from_split_bitmasks")
    params = [a.arg for a in fn.args.args]
    if params != ["cls", "split_bitmasks", "taxon_namespace", "is_rooted", "split_edge_lengths"]:
        raise Unsupported("from_split_bitmasks parameters %s" % params)
    body = [s for s in fn.body if not is_doc(s)]
    fc = FromC(bip_cls)
    pos = [0]

    def nxt():
        if pos[0] >= len(body):
            raise Unsupported("from_split_bitmasks ends early")
        pos[0] += 1
        return body[pos[0] - 1]

    def expect(stmt, txt):
        if D(stmt) != D(ast.parse(txt).body[0]):
            raise Unsupported("from_split_bitmasks: expected `%s`, found `%s`" % (txt.split("\n")[0], ast.unparse(stmt)[:80]))
    expect(nxt(), "leaf_to_root_search = True")
    expect(nxt(), "reconstructed_tree = cls(taxon_namespace=taxon_namespace)")
    expect(nxt(), "reconstructed_tree.is_rooted = is_rooted")
    expect(nxt(), "for taxon in taxon_namespace:\n    reconstructed_tree.seed_node.new_child(taxon=taxon)")
    expect(nxt(), "all_taxa_bitmask = taxon_namespace.all_taxa_bitmask()")
    s = nxt()
    if not (isinstance(s, ast.Expr) and isinstance(s.value, ast.Call)
            and same(s.value.func, "reconstructed_tree.encode_bipartitions") and not s.value.args):
        raise Unsupported("from_split_bitmasks: the encode_bipartitions call")
    # flags of that call: the defaults of encode_bipartitions unless given
    enc = find_def(cls, "encode_bipartitions")
    eparams = [a.arg for a in enc.args.args][1:]
    edefs = {p: d for p, d in zip(eparams, enc.args.defaults)}
    for kw in s.value.keywords:
        if kw.arg not in edefs:
            raise Unsupported("keyword %s of encode_bipartitions" % kw.arg)
        edefs[kw.arg] = kw.value
    flags = []
    for pname in ("suppress_unifurcations", "collapse_unrooted_basal_bifurcation", "suppress_storage", "is_bipartitions_mutable"):
        d = edefs.get(pname)
        if not (isinstance(d, ast.Constant) and isinstance(d.value, bool)):
            raise Unsupported("flag %s of encode_bipartitions" % pname)
        flags.append("true" if d.value else "false")
    expect(nxt(), "reconstructed_tree.bipartition_encoding = []")
    expect(nxt(), "leaves = reconstructed_tree.leaf_nodes()")
    expect(nxt(), "if leaf_to_root_search:\n    to_leaf_dict = {}\n    for leaf in leaves:\n        to_leaf_dict[leaf.edge.bipartition.leafset_bitmask] = leaf")
    expect(nxt(), "root = reconstructed_tree.seed_node")
    expect(nxt(), "root_edge = root.edge")
    expect(nxt(), "split_bitmasks_to_add = []")
    # ---- the filter / de-normalisation loop ------------------------------------------------------
    loop = nxt()
    if not (isinstance(loop, ast.For) and isinstance(loop.target, ast.Name) and same(loop.iter, "split_bitmasks") and not loop.orelse):
        raise Unsupported("from_split_bitmasks: the filter loop")
    env = {loop.target.id: ("Z", loop.target.id), "all_taxa_bitmask": ("Z", "all_taxa_bitmask"),
           "is_rooted": ("obool", "is_rooted")}
    filt = fc.appends(loop.body, env, "split_bitmasks_to_add")
    out = ["(* Tree.from_split_bitmasks: the loop building split_bitmasks_to_add *)",
           "Definition gen_splits_to_add (is_rooted : option bool) (all_taxa_bitmask : Z) (split_bitmasks : list Z) : list Z :=\n"
           "  flat_map (fun %s => %s) split_bitmasks.\n" % (loop.target.id, filt)]
    s = nxt()
    if not (isinstance(s, ast.Assign) and isinstance(s.value, ast.Lambda)):
        raise Unsupported("from_split_bitmasks: expected the (unused) _get_mask lambda")
    # ---- the insertion loop -------------------------------------------------------------------------
    loop = nxt()
    if not (isinstance(loop, ast.For) and isinstance(loop.target, ast.Name) and same(loop.iter, "split_bitmasks_to_add") and not loop.orelse):
        raise Unsupported("from_split_bitmasks: the insertion loop")
    sv = loop.target.id
    lb = [x for x in loop.body if not is_doc(x)]
    if len(lb) != 8:
        raise Unsupported("from_split_bitmasks: %d statements in the insertion loop" % len(lb))
    env = {sv: ("Z", sv), "all_taxa_bitmask": ("Z", "all_taxa_bitmask"), "root_edge": ("edge_of", "t")}
    # 1. if <outside root>: continue / elif leaf_to_root_search: <search> / else: mrca
    s1 = lb[0]
    if not (isinstance(s1, ast.If) and len(s1.body) == 1 and isinstance(s1.body[0], ast.Continue)
            and len(s1.orelse) == 1 and isinstance(s1.orelse[0], ast.If) and same(s1.orelse[0].test, "leaf_to_root_search")):
        raise Unsupported("from_split_bitmasks: root check / parent search")
    outside = fc.cond(s1.test, env)
    srch = s1.orelse[0].body
    if not (len(srch) == 4 and isinstance(srch[0], ast.Assign) and isinstance(srch[0].targets[0], ast.Name)
            and D(srch[1]) == D(ast.parse("one_leaf = to_leaf_dict[%s]" % srch[0].targets[0].id).body[0])
            and D(srch[2]) == D(ast.parse("parent_node = one_leaf").body[0])
            and isinstance(srch[3], ast.While) and len(srch[3].body) == 1 and not srch[3].orelse
            and D(srch[3].body[0]) == D(ast.parse("parent_node = parent_node.parent_node").body[0])):
        raise Unsupported("from_split_bitmasks: the leaf-to-root search")
    lbname = srch[0].targets[0].id
    lbcode = fc.expr(srch[0].value, env)
    envw = dict(env)
    envw["parent_node"] = ("node", "(M mask_ None [])")
    not_covers = fc.cond(srch[3].test, envw).replace("(m_mask (M mask_ None []))", "mask_")
    # 2. if parent_node is None or <already there>: continue
    s2 = lb[1]
    if not (isinstance(s2, ast.If) and len(s2.body) == 1 and isinstance(s2.body[0], ast.Continue) and not s2.orelse):
        raise Unsupported("from_split_bitmasks: the already-in-tree test")
    envn = dict(env)
    envn["parent_node"] = ("node", "parent_node")
    present = fc.cond(s2.test, envn)
    # 3-6. new_node = cls.node_factory(); new_node_children = []; new_edge = new_node.edge; new_mask = 0
    expect(lb[2], "new_node = cls.node_factory()")
    expect(lb[3], "new_node_children = []")
    expect(lb[4], "new_edge = new_node.edge")
    if not (isinstance(lb[5], ast.Assign) and same(lb[5].targets[0], "new_mask")):
        raise Unsupported("from_split_bitmasks: new_mask")
    mask0 = fc.expr(lb[5].value, envn)
    # 7. for child in parent_node.child_nodes(): cecm = ...; if cecm & split: assert; new_mask |= cecm; append; new bipartition; record
    g = lb[6]
    if not (isinstance(g, ast.For) and isinstance(g.target, ast.Name) and same(g.iter, "parent_node.child_nodes()")
            and len([x for x in g.body if not is_doc(x)]) == 2):
        raise Unsupported("from_split_bitmasks: the loop over the children")
    ch = g.target.id
    gb = [x for x in g.body if not is_doc(x)]
    envc = dict(envn)
    envc[ch] = ("node", ch)
    envc["new_mask"] = ("Z", "new_mask")
    if not (isinstance(gb[0], ast.Assign) and isinstance(gb[0].targets[0], ast.Name)):
        raise Unsupported("from_split_bitmasks: cecm")
    cv = gb[0].targets[0].id
    cvcode = fc.expr(gb[0].value, envc)
    envc[cv] = ("Z", cv)
    gi = gb[1]
    if not (isinstance(gi, ast.If) and not gi.orelse):
        raise Unsupported("from_split_bitmasks: the gather test")
    gtest = fc.cond(gi.test, envc)
    gs = [x for x in gi.body if not is_doc(x)]
    if not (len(gs) == 5 and isinstance(gs[0], ast.Assert) and isinstance(gs[1], ast.AugAssign)
            and same(gs[1].target, "new_mask") and type(gs[1].op) in BINOPS
            and D(gs[2]) == D(ast.parse("new_node_children.append(%s)" % ch).body[0])
            and isinstance(gs[3], ast.Assign) and same(gs[3].targets[0], "new_edge.bipartition")
            and D(gs[4]) == D(ast.parse("reconstructed_tree.bipartition_encoding.append(new_edge.bipartition)").body[0])):
        raise Unsupported("from_split_bitmasks: body of the gather test")
    gassert = fc.cond(gs[0].test, envc)
    gupd = "(%s new_mask %s)" % (BINOPS[type(gs[1].op)], fc.expr(gs[1].value, envc))
    # the Bipartition created for the new edge: keywords
    call = gs[3].value
    if not (isinstance(call, ast.Call) and not call.args
            and D(call.func) in (D(parse_expr("_bipartition.Bipartition")), D(parse_expr("Bipartition")))):
        raise Unsupported("from_split_bitmasks: the new edge's Bipartition")
    init = find_def(bip_cls, "__init__")
    m = MethodC(bip_cls, init, kwargs_types=INIT_KW)
    m.translate(None, name="init", constructor=True)
    kws = {}
    for kw in call.keywords:
        ty = INIT_KW.get(kw.arg)
        if ty is None:
            raise Unsupported("keyword %s of Bipartition()" % kw.arg)
        if isinstance(kw.value, ast.Constant) and isinstance(kw.value.value, bool) and ty == "obool":
            kws[kw.arg] = "(Some (Some %s))" % ("true" if kw.value.value else "false")
        elif ty == "oZ":
            kws[kw.arg] = "(Some (Some %s))" % fc.expr(kw.value, envc)
        elif ty == "obool" and isinstance(kw.value, ast.Name) and kw.value.id == "is_rooted":
            # the method's own parameter (bool or None), handed on as it is
            kws[kw.arg] = "(Some is_rooted)"
        else:
            raise Unsupported("keyword value %s of Bipartition()" % kw.arg)
    initargs = " ".join(kws.get(key, "None") for key, _t in m.kw_params)
    # 8. if new_edge.bipartition.leafset_bitmask == split: [lengths]; regroup
    f = lb[7]
    if not (isinstance(f, ast.If) and not f.orelse):
        raise Unsupported("from_split_bitmasks: the final test")
    envf = dict(envn)
    envf["new_edge"] = ("new_edge", "new_leafset")
    ftest = fc.cond(f.test, envf)
    fb = [x for x in f.body if not is_doc(x)]
    want = ["if split_edge_lengths:\n    new_edge.length = split_edge_lengths[%s]" % sv,
            "for child in new_node_children:\n    parent_node.remove_child(child)\n    new_node.add_child(child)",
            "parent_node.add_child(new_node)"]
    if not (len(fb) == 3 and all(D(a) == D(ast.parse(w).body[0]) for a, w in zip(fb, want))):
        raise Unsupported("from_split_bitmasks: the re-grouping of the gathered children")
    expect(nxt(), "return reconstructed_tree")
    if pos[0] != len(body):
        raise Unsupported("from_split_bitmasks: trailing statements")
    out.append("(* Tree.from_split_bitmasks: one iteration of the insertion loop, at the node the\n"
               "   leaf-to-root search stops at *)")
    out.append(
        "Definition gen_from_splits_at_node (is_rooted : option bool) (all_taxa_bitmask %s : Z) (parent_node : mtree) : res mtree :=\n"
        "  if %s then Ok parent_node else\n"
        "  let new_mask := %s in\n"
        "  do gathered <- fold_left (fun acc_ %s =>\n"
        "      do st_ <- acc_;;\n"
        "      let new_mask := fst (fst st_) in let new_node_children := snd (fst st_) in\n"
        "      let %s := %s in\n"
        "      if %s then\n"
        "        (if negb %s then Err AssertErr else\n"
        "         let new_mask := %s in\n"
        "         let new_node_children := new_node_children ++ [%s] in\n"
        "         do b_ <- gen_init %s;;\n"
        "         Ok (new_mask, new_node_children, Some (fst b_)))\n"
        "      else Ok st_) (m_kids parent_node) (Ok (new_mask, [], None));;\n"
        "  let new_node_children := snd (fst gathered) in\n"
        "  match snd gathered with\n"
        "  | None => Err AttrErr\n"
        "  | Some new_edge_bipartition =>\n"
        "    do new_leafset <- need_int (b_leafset new_edge_bipartition);;\n"
        "    if %s then Ok (prim_regroup parent_node new_node_children new_leafset) else Ok parent_node\n"
        "  end.\n"
        % (sv, present, mask0, ch, cv, cvcode, gtest, gassert, gupd, ch, initargs, ftest))
    out.append("(* Tree.from_split_bitmasks: one iteration of the insertion loop *)")
    out.append(
        "Definition gen_from_splits_step (is_rooted : option bool) (all_taxa_bitmask : Z) (t : mtree) (%s : Z) : res mtree :=\n"
        "  if %s then Ok t else\n"
        "  let %s := %s in\n"
        "  prim_locate_apply (fun mask_ => %s) %s (gen_from_splits_at_node is_rooted all_taxa_bitmask %s) t.\n"
        % (sv, outside, lbname, lbcode, not_covers, lbname, sv))
    out.append("(* Tree.from_split_bitmasks *)")
    out.append(
        "Definition gen_from_split_bitmasks (ns : list (Z * Z)) (current_accession_count : Z) (is_rooted : option bool)\n"
        "  (split_bitmasks : list Z) : res mtree :=\n"
        "  let all_taxa_bitmask := gen_all_taxa_bitmask current_accession_count in\n"
        "  do enc <- gen_encode_bipartitions %s (lookup ns) is_rooted (star ns);;\n"
        "  do t0 <- prim_working_tree enc;;\n"
        "  let split_bitmasks_to_add := gen_splits_to_add is_rooted all_taxa_bitmask split_bitmasks in\n"
        "  fold_left (fun acc_ %s => do t <- acc_;; gen_from_splits_step is_rooted all_taxa_bitmask t %s) split_bitmasks_to_add (Ok t0).\n"
        % (" ".join(flags), sv, sv))
    return out



def gen_tree_compat(tree_mod, bip_cls):
    """Bipartition.__eq__ and Tree.is_compatible_with_bipartition (on an up-to-date encoding)"""
    out = []
    eq = find_def(bip_cls, "__eq__")
    body = [x for x in eq.body if not is_doc(x) and not isinstance(x, ast.Expr)]
    if not (len(body) == 1 and isinstance(body[0], ast.Return) and isinstance(body[0].value, ast.BoolOp)):
        raise Unsupported("Bipartition.__eq__ shape")
    m = MethodC(bip_cls, eq, other_type="bip")
    env = {"self": ("self", "bip"), "other": ("other", "bip")}

    def eq_cond(e):
        if isinstance(e, ast.BoolOp):
            f = "andb" if isinstance(e.op, ast.And) else "orb"
            parts = [eq_cond(v) for v in e.values]
            o = parts[-1]
            for c in reversed(parts[:-1]):
                o = "(%s %s %s)" % (f, c, o)
            return o
        if isinstance(e, ast.Compare) and len(e.ops) == 1 and isinstance(e.ops[0], ast.Is) \
                and not (isinstance(e.comparators[0], ast.Constant)):
            # identity of two attribute values: beyond equality it only adds the case None is None
            _b1, c1, t1 = m.expr(e.left, env)
            _b2, c2, t2 = m.expr(e.comparators[0], env)
            if t1 != "oZ" or t2 != "oZ":
                raise Unsupported("`is` between a %s and a %s" % (t1, t2))
            return "(orb (andb (is_none %s) (is_none %s)) (match %s, %s with Some a_, Some b_ => Z.eqb a_ b_ | _, _ => false end))" % (c1, c2, c1, c2)
        if isinstance(e, ast.Compare) and len(e.ops) == 1 and isinstance(e.ops[0], ast.Eq):
            _b1, c1, t1 = m.expr(e.left, env)
            _b2, c2, t2 = m.expr(e.comparators[0], env)
            if t1 != "oZ" or t2 != "oZ":
                raise Unsupported("== between a %s and a %s" % (t1, t2))
            return "(match %s, %s with Some a_, Some b_ => Z.eqb a_ b_ | None, None => true | _, _ => false end)" % (c1, c2)
        b, c = m.cond(e, env)
        if b:
            raise Unsupported("__eq__ operand can raise")
        return c
    out.append("(* Bipartition.__eq__ *)")
    out.append("Definition gen_bip_eq (self other : bip) : bool :=\n  %s.\n" % eq_cond(body[0].value))
    cls = [n for n in tree_mod.body if isinstance(n, ast.ClassDef) and n.name == "Tree"][0]
    fn = find_def(cls, "is_compatible_with_bipartition")
    body = [x for x in fn.body if not is_doc(x)]
    want0 = "if not is_bipartitions_updated or not self.bipartition_encoding:\n    self.encode_bipartitions()"
    if not (len(body) == 2 and D(body[0]) == D(ast.parse(want0).body[0]) and isinstance(body[1], ast.If)
            and same(body[1].test, "bipartition in self.bipartition_encoding")
            and len(body[1].body) == 1 and D(body[1].body[0]) == D(ast.parse("return True").body[0])
            and len(body[1].orelse) == 2 and isinstance(body[1].orelse[0], ast.For)
            and D(body[1].orelse[1]) == D(ast.parse("return True").body[0])):
        raise Unsupported("is_compatible_with_bipartition shape")
    loop = body[1].orelse[0]
    if not (isinstance(loop.target, ast.Name) and same(loop.iter, "self.bipartition_encoding") and len(loop.body) == 1
            and isinstance(loop.body[0], ast.If) and not loop.body[0].orelse and len(loop.body[0].body) == 1
            and D(loop.body[0].body[0]) == D(ast.parse("return False").body[0])):
        raise Unsupported("is_compatible_with_bipartition loop")
    bv = loop.target.id
    t = loop.body[0].test
    # if not b.<method>(bipartition): return False
    if not (isinstance(t, ast.UnaryOp) and isinstance(t.op, ast.Not) and isinstance(t.operand, ast.Call)
            and isinstance(t.operand.func, ast.Attribute) and same(t.operand.func.value, bv)
            and t.operand.func.attr in RETURNS and RETURNS[t.operand.func.attr] == "bool"
            and len(t.operand.args) == 1 and same(t.operand.args[0], "bipartition") and not t.operand.keywords):
        raise Unsupported("is_compatible_with_bipartition test")
    meth = t.operand.func.attr
    out.append("(* Tree.is_compatible_with_bipartition, on an up-to-date encoding\n"
               "   (is_bipartitions_updated=True, non-empty bipartition_encoding) *)")
    out.append("Definition gen_is_compatible_with_bipartition (bipartition_encoding : list bip) (bipartition : bip) : res bool :=\n"
               "  if existsb (fun %s => gen_bip_eq bipartition %s) bipartition_encoding then Ok true\n"
               "  else all_res (fun %s => do r_ <- gen_%s %s (IsBip bipartition);; Ok (snd r_)) bipartition_encoding.\n"
               % (bv, bv, bv, meth, bv))
    return out


HEADER = """(* GENERATED by py/dv/gen_bipartition.py from datamodel/treemodel/_bipartition.py, _tree.py and
   datamodel/taxonmodel.py -- do not edit *)
From Coq Require Import ZArith List Bool.
From DV Require Import Model.PyPrims Model.Tree Model.C01Model Gen.BitFns Model.C01GenPrims.
Import ListNotations.
Open Scope Z_scope.
"""


def generate(repo):
    src = os.path.join(repo, "src", "dendropy")
    with open(os.path.join(src, "datamodel", "treemodel", "_bipartition.py")) as f:
        bp = ast.parse(f.read())
    with open(os.path.join(src, "datamodel", "treemodel", "_tree.py")) as f:
        tr = ast.parse(f.read())
    with open(os.path.join(src, "datamodel", "taxonmodel.py")) as f:
        tx = ast.parse(f.read())
    bip_cls = [n for n in bp.body if isinstance(n, ast.ClassDef) and n.name == "Bipartition"][0]
    out = [HEADER]
    out += gen_taxon_fns(tx)
    out += gen_bipartition_methods(bp)
    out += gen_encode(tr, bip_cls)
    out += gen_from_splits(tr, bip_cls)
    out += gen_tree_compat(tr, bip_cls)
    return "\n".join(out)


if __name__ == "__main__":
    import sys
    print(generate(sys.argv[1] if len(sys.argv) > 1 else "/repo"))
