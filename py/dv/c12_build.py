"""C12 helper: build decorated datamodel objects from JSON specs, copy routes, mutations, and an
independent "semantic summary" (what a user can observe through the public API)."""
import copy

from dv import trees as T

UNIT = T.UNIT


# ----------------------------------------------------------------------------------------------
# construction
# ----------------------------------------------------------------------------------------------

def build(case):
    """-> root object (Tree | TreeList | CharacterMatrix | TaxonNamespace)"""
    import dendropy
    kind = case["type"]
    nsd = case["ns"]
    ns = dendropy.TaxonNamespace(label=nsd.get("label"))
    hist = nsd.get("history") or []
    nrem = sum(1 for op in hist if op[0] == "remove")
    for k in range(nsd["n"] + nrem):
        ns.new_taxon("t%d" % k)
    # a namespace with a history: after sort / reverse / removal of a non-final taxon the list position of a
    # taxon is no longer its accession index (the bit it has in every bipartition bitmask)
    for op in hist:
        if op[0] == "sort_rev":
            ns.sort(key=lambda t: t.label, reverse=True)
        elif op[0] == "reverse":
            ns.reverse()
        elif op[0] == "remove" and len(ns._taxa) > 1:
            ns.remove_taxon(ns._taxa[op[1] % (len(ns._taxa) - 1)])
        elif op[0] == "remove" and ns._taxa:
            ns.remove_taxon(ns._taxa[0])
    if kind == "ns":
        root = ns
    elif kind == "tree":
        root = _mk_tree(case["trees"][0], ns)
    elif kind == "treelist":
        root = dendropy.TreeList(taxon_namespace=ns, label=case.get("label"))
        for ts in case["trees"]:
            root.append(_mk_tree(ts, ns))
    else:
        cls = {"dna": dendropy.DnaCharacterMatrix, "standard": dendropy.StandardCharacterMatrix,
               "continuous": dendropy.ContinuousCharacterMatrix}[kind]
        root = cls(taxon_namespace=ns, label=case.get("label"))
        for k, seq in case["seqs"]:
            if kind == "continuous":
                root[ns[k]] = [x * UNIT for x in seq]
            else:
                # symbols -> StateIdentity objects of the matrix's alphabet (as from_dict does)
                root[ns[k]] = root.coerce_values(seq)
    for op in case["deco"]:
        apply_deco(root, op)
    return root


def _mk_tree(ts, ns):
    tree, _by = T.build_dendropy(ts["spec"], list(ns), is_rooted=ts.get("rooted"), namespace=ns)
    # build_dendropy tags nodes with _dv_id (an extra attribute: copied like any other)
    if ts.get("label") is not None:
        tree.label = ts["label"]
    if ts.get("weight") is not None:
        tree.weight = ts["weight"] * UNIT
    return tree


def trees_of(root):
    import dendropy
    if isinstance(root, dendropy.Tree):
        return [root]
    if isinstance(root, dendropy.TreeList):
        return list(root._trees)
    return []


def namespace_of(root):
    import dendropy
    if isinstance(root, dendropy.TaxonNamespace):
        return root
    return root.taxon_namespace


class NoTarget(Exception):
    """the addressed part does not exist (e.g. annotation index on an empty set): op is skipped"""


def resolve(root, tgt):
    """address an object inside `root` (works the same way on a copy)"""
    try:
        return _resolve(root, tgt)
    except (ZeroDivisionError, IndexError):
        raise NoTarget(tgt)


def _resolve(root, tgt):
    k = tgt[0]
    if k == "root":
        return root
    if k == "tree":
        return trees_of(root)[tgt[1]]
    if k in ("node", "edge"):
        t = trees_of(root)[tgt[1]]
        nds = list(t.preorder_node_iter())
        nd = nds[tgt[2] % len(nds)]
        return nd if k == "node" else nd.edge
    if k == "ns":
        return namespace_of(root)
    if k == "taxon":
        ns = namespace_of(root)
        return ns._taxa[tgt[1] % len(ns._taxa)]
    if k == "seq":
        seqs = list(root._taxon_sequence_map.values())
        return seqs[tgt[1] % len(seqs)]
    if k == "subset":
        subs = list(root.character_subsets.values())
        return subs[tgt[1] % len(subs)]
    if k == "ann":
        owner = resolve(root, tgt[1])
        anns = list(owner.annotations)
        if not anns:
            raise NoTarget(tgt)
        return anns[tgt[2] % len(anns)]
    raise ValueError(tgt)


def mkval(root, spec):
    k = spec[0]
    if k in ("int", "str", "none", "bool"):
        return spec[1]
    if k == "float":
        return spec[1] * UNIT
    if k == "list":
        return [mkval(root, s) for s in spec[1]]
    if k == "tuple":
        return tuple(mkval(root, s) for s in spec[1])
    if k == "dict":
        return {a: mkval(root, s) for a, s in spec[1]}
    if k == "ref":
        return resolve(root, spec[1])
    raise ValueError(spec)


def apply_deco(root, op):
    try:
        _apply_deco(root, op)
    except NoTarget:
        pass


def _apply_deco(root, op):
    k = op[0]
    if k == "ann":
        resolve(root, op[1]).annotations.add_new(op[2], mkval(root, op[3]))
    elif k == "bound":
        obj = resolve(root, op[1])
        setattr(obj, op[2], mkval(root, op[3]))
        obj.annotations.add_bound_attribute(op[2])
    elif k == "bound_other":
        obj = resolve(root, op[1])
        owner = resolve(root, op[2])
        setattr(owner, op[3], mkval(root, op[4]))
        obj.annotations.add_bound_attribute(op[3], owner_instance=owner)
    elif k == "comment":
        o = resolve(root, op[1])
        if hasattr(o, "comments"):      # sequences and annotations have no comments list
            o.comments.append(op[2])
    elif k == "extra":
        setattr(resolve(root, op[1]), op[2], mkval(root, op[3]))
    elif k == "touch_ann":
        resolve(root, op[1]).annotations
    elif k == "clear_ann":
        resolve(root, op[1]).annotations.clear()
    elif k == "encode":
        t = trees_of(root)[op[1]]
        if len(op) > 3 and op[3]:
            # wave 7: bipartitions left open for modification (is_mutable True; they cannot be hashed: both edge
            # maps of the tree are unavailable, by an assertion of the library)
            t.encode_bipartitions(is_bipartitions_mutable=True)
        else:
            t.encode_bipartitions()     # the default: frozen bipartitions
            if op[2]:
                t.bipartition_edge_map
    elif k == "label":
        resolve(root, op[1]).label = op[2]
    elif k == "subset":
        root.new_character_subset(op[1], op[2])
    elif k == "chartypes":
        # one CharacterType per column, shared by all sequences
        n = min(len(s) for s in root._taxon_sequence_map.values())
        cts = [root.new_character_type(label="c%d" % i) for i in range(n)]
        root.character_types.extend(cts)
        for s in root._taxon_sequence_map.values():
            for i in range(n):
                s.set_character_type_at(i, cts[i])
    elif k == "cell_ann":
        s = resolve(root, ["seq", op[1]])
        s.annotations_at(op[2] % len(s)).add_new(op[3], mkval(root, op[4]))
    else:
        raise ValueError(op)


# ----------------------------------------------------------------------------------------------
# copy routes
# ----------------------------------------------------------------------------------------------

ROUTES = ["deepcopy", "clone2", "clone1", "scoped", "copy", "clone0", "ctor", "extract", "extract_noref", "extract_keep"]


def do_copy(root, route):
    if route == "deepcopy":
        return copy.deepcopy(root)
    if route == "clone2":
        return root.clone(2)
    if route == "clone1":
        return root.clone(1)
    if route == "scoped":
        return root.taxon_namespace_scoped_copy()
    if route == "copy":
        return copy.copy(root)
    if route == "clone0":
        return root.clone(0)
    if route == "ctor":
        return type(root)(root)
    if route == "extract":
        return root.extract_tree()
    if route == "extract_noref":
        return root.extract_tree(extraction_source_reference_attr_name=None)
    if route == "extract_keep":
        return root.extract_tree(suppress_unifurcations=False)
    raise ValueError(route)


def depth_of(kind, route):
    """documented depth of a route: deep | scoped | shallow | self | thin"""
    if route in ("deepcopy", "clone2"):
        return "deep"
    if route.startswith("extract"):
        return "thin"
    if kind == "ns":
        # TaxonNamespace: scoped copy is the namespace itself; copy/ctor = new namespace, same taxa
        return "self" if route in ("clone1", "scoped") else "shallow"
    if route in ("clone1", "scoped", "ctor"):
        return "scoped"
    # copy.copy / clone(0)
    if kind == "tree":
        return "scoped"       # Tree.__copy__ is the taxon-namespace-scoped copy
    return "shallow"          # TreeList / CharacterMatrix: members are references


def allowed_shared(root, kind, route):
    """the objects the documentation lets source and copy share (their reachable closure is shared)"""
    d = depth_of(kind, route)
    ns = namespace_of(root)
    if d == "deep":
        return []
    if d == "self":
        return [root]
    if d in ("scoped", "thin"):
        return [ns] + list(ns._taxa)
    if kind == "ns":
        return list(ns._taxa)
    if kind == "treelist":
        return [ns] + list(ns._taxa) + list(root._trees)
    return [ns] + list(ns._taxa) + list(root._taxon_sequence_map.values())


# ----------------------------------------------------------------------------------------------
# mutations
# ----------------------------------------------------------------------------------------------

def apply_mut(root, op):
    """mutate something inside `root` through the public API; returns a short tag"""
    try:
        return _apply_mut(root, op)
    except NoTarget:
        return "no-target"


def _apply_mut(root, op):
    import dendropy
    k = op[0]
    if k == "set_len":
        resolve(root, ["edge", op[1], op[2]]).length = op[3] * UNIT
    elif k == "set_label":
        resolve(root, op[1]).label = op[2]
    elif k == "taxon_label":
        resolve(root, ["taxon", op[1]]).label = op[2]
    elif k == "ann_value":
        a = resolve(root, ["ann", op[1], op[2]])
        if a.is_attribute:      # a bound annotation's value is the attribute
            setattr(a._value[0], a._value[1], mkval(root, op[3]))
        else:
            a.value = mkval(root, op[3])
    elif k == "ann_add":
        resolve(root, op[1]).annotations.add_new(op[2], mkval(root, op[3]))
    elif k == "ann_drop":
        anns = resolve(root, op[1]).annotations
        anns.remove(list(anns)[op[2] % len(anns)])
    elif k == "ann_inplace":
        a = resolve(root, ["ann", op[1], op[2]])
        v = None if a.is_attribute else a._value
        if isinstance(v, list):
            v.append(99)
        elif isinstance(v, dict):
            v["zz"] = 99
        else:
            a.name = a.name + "_m"
    elif k == "ann_of_ann":
        resolve(root, ["ann", op[1], op[2]]).annotations.add_new("sub", 1)
    elif k == "setattr":
        setattr(resolve(root, op[1]), op[2], mkval(root, op[3]))
    elif k == "extra_inplace":
        v = getattr(resolve(root, op[1]), op[2])
        if isinstance(v, list):
            v.append(98)
        elif isinstance(v, dict):
            v["zz"] = 98
    elif k == "comment_add":
        o = resolve(root, op[1])
        if hasattr(o, "comments"):
            o.comments.append(op[2])
    elif k == "prune":
        t = trees_of(root)[op[1]]
        nd = resolve(root, ["node", op[1], op[2]])
        if nd is not t.seed_node:
            t.prune_subtree(nd, suppress_unifurcations=False)
    elif k == "reroot":
        t = trees_of(root)[op[1]]
        nd = resolve(root, ["node", op[1], op[2]])
        if nd._child_nodes and nd is not t.seed_node:
            t.reroot_at_node(nd, suppress_unifurcations=False)
    elif k == "new_child":
        resolve(root, ["node", op[1], op[2]]).new_child(label="added", edge_length=1.0)
    elif k == "collapse":
        nd = resolve(root, ["node", op[1], op[2]])
        if nd._child_nodes and nd._parent_node is not None:
            nd.edge.collapse()
    elif k == "swap_children":
        nd = resolve(root, ["node", op[1], op[2]])
        nd._child_nodes.reverse()
    elif k == "encode":
        trees_of(root)[op[1]].encode_bipartitions()
    # wave 7: in-place edits of bipartition data that do not go through a re-encoding
    elif k == "bip_split":
        resolve(root, ["edge", op[1], op[2]]).split_bitmask = op[3]
    elif k == "bip_leafset":
        resolve(root, ["edge", op[1], op[2]]).leafset_bitmask = op[3]
    elif k == "bip_unfreeze":
        b = resolve(root, ["edge", op[1], op[2]]).bipartition
        b.is_mutable = True
        b.compile_split_bitmask(leafset_bitmask=op[3], tree_leafset_bitmask=op[3] | 0b111, is_mutable=True)
    elif k == "enc_inplace":
        enc = trees_of(root)[op[1]].bipartition_encoding
        if enc:
            enc.reverse()
            enc.pop()
    elif k == "rooting":
        trees_of(root)[op[1]].is_rooted = op[2]
    elif k == "retaxon":
        nd = resolve(root, ["node", op[1], op[2]])
        nd.taxon = resolve(root, ["taxon", op[3]])
    elif k == "cell":
        s = resolve(root, ["seq", op[1]])
        if isinstance(root, dendropy.ContinuousCharacterMatrix):
            s[op[2] % len(s)] = op[3] * UNIT
        else:
            s[op[2] % len(s)] = root.default_state_alphabet[op[3] % 2 if root.data_type == "standard" else "ACGT"[op[3] % 4]]
    elif k == "seq_append":
        s = resolve(root, ["seq", op[1]])
        s.append(s[0])
    elif k == "del_seq":
        ns = namespace_of(root)
        tx = list(root._taxon_sequence_map.keys())
        del root[tx[op[1] % len(tx)]]
    elif k == "subset_add":
        root.new_character_subset(op[1], op[2])
    elif k == "subset_inplace":
        resolve(root, ["subset", op[1]]).character_indices.add(77)
    elif k == "tl_pop":
        root.pop()
    elif k == "tl_append":
        root.append(dendropy.Tree(taxon_namespace=root.taxon_namespace))
    elif k == "tl_reverse":
        root._trees.reverse()
    elif k == "ns_new_taxon":
        namespace_of(root).new_taxon(op[1])
    elif k == "ns_remove_taxon":
        ns = namespace_of(root)
        ns.remove_taxon(ns._taxa[op[1] % len(ns._taxa)])
    elif k == "ns_sort":
        namespace_of(root).sort(reverse=True)
    else:
        raise ValueError(op)
    return k


# which mutations act on the namespace / taxa themselves (visible through every holder of them)
NS_MUTS = ("taxon_label", "ns_new_taxon", "ns_remove_taxon", "ns_sort")


def mut_touches_taxa(op):
    if op[0] in NS_MUTS:
        return True
    tgt = op[1] if len(op) > 1 and isinstance(op[1], list) else None
    while tgt is not None:
        if tgt[0] in ("taxon", "ns"):
            return True
        tgt = tgt[1] if tgt[0] == "ann" else None
    return False


# ----------------------------------------------------------------------------------------------
# semantic summary (independent of the graph dump; public API only)
# ----------------------------------------------------------------------------------------------

def _vsum(v, ctx, depth=0):
    import dendropy
    from dendropy.datamodel import basemodel
    if depth > 6:
        return "..."
    if v is None or isinstance(v, (bool, int, str)):
        return repr(v)
    if isinstance(v, float):
        return v.hex()
    if isinstance(v, (list, tuple)):
        return [type(v).__name__] + [_vsum(x, ctx, depth + 1) for x in v]
    if isinstance(v, dict):
        return ["dict"] + [[_vsum(a, ctx, depth + 1), _vsum(b, ctx, depth + 1)] for a, b in v.items()]
    if isinstance(v, (set, frozenset)):
        return ["set"] + sorted(repr(x) for x in v)
    # datamodel object: name it by its position relative to the summarised root
    if ctx.get("loose"):
        return ["obj", type(v).__name__]
    return ["obj", type(v).__name__, ctx.get(id(v), "outside")]


def _anns(o, ctx, depth=0):
    if depth > 3 or not o.has_annotations:
        return []
    out = []
    for a in o.annotations:
        try:
            val = _vsum(a.value, ctx)
        except Exception as e:     # a bound annotation whose owner lacks the attribute
            val = ["reading-value-raises", type(e).__name__]
        out.append([a.name, bool(a.is_attribute), val, a.name_prefix, a.datatype_hint,
                    _anns(a, ctx, depth + 1)])
    return out


def _extras(o, std):
    return sorted(k for k in o.__dict__ if k not in std)


_NODE_STD = {"_label", "taxon", "age", "_edge", "_child_nodes", "_parent_node", "comments", "_annotations", "_dv_id"}
_EDGE_STD = {"_label", "_head_node", "rootedge", "length", "_bipartition", "comments", "_annotations"}
_TREE_STD = {"_label", "_taxon_namespace", "automigrate_taxon_namespace_on_assignment", "comments", "_is_rooted",
             "weight", "length_type", "_seed_node", "bipartition_encoding", "_split_bitmask_edge_map",
             "_bipartition_edge_map", "_annotations"}


def _positions(root):
    """id(obj) -> stable position name, for every datamodel object a value may refer to"""
    import dendropy
    ctx = {id(root): "root"}
    ns = namespace_of(root)
    ctx[id(ns)] = "ns"
    for i, t in enumerate(ns._taxa):
        ctx[id(t)] = "taxon%d" % i
    for ti, t in enumerate(trees_of(root)):
        ctx[id(t)] = "tree%d" % ti
        for i, nd in enumerate(t.preorder_node_iter()):
            ctx[id(nd)] = "node%d.%d" % (ti, i)
            ctx[id(nd.edge)] = "edge%d.%d" % (ti, i)
    if hasattr(root, "_taxon_sequence_map"):
        for i, s in enumerate(root._taxon_sequence_map.values()):
            ctx[id(s)] = "seq%d" % i
    return ctx


def summary_ns(ns, ctx, thin=False):
    out = {"label": ns.label, "taxa": [t.label for t in ns], "n": len(ns)}
    if not thin:
        out["ann"] = _anns(ns, ctx)
        out["taxa_ann"] = [_anns(t, ctx) for t in ns]
        out["comments"] = list(ns.comments)
        out["acc"] = [ns.accession_index(t) for t in ns]
        out["flags"] = [bool(ns.is_mutable), bool(ns.is_case_sensitive)]
    return out


def summary_tree(t, ctx, thin=False, extras=True):
    ns = t.taxon_namespace
    tx = {id(x): i for i, x in enumerate(ns._taxa)}

    def node(nd):
        e = nd.edge
        d = {"label": nd.label, "taxon": tx.get(id(nd.taxon), None if nd.taxon is None else "foreign:%s" % nd.taxon.label),
             "len": None if e.length is None else float(e.length).hex(), "elabel": e.label,
             "kids": [node(c) for c in nd._child_nodes],
             "wf": [nd.edge._head_node is nd, all(c._parent_node is nd for c in nd._child_nodes)]}
        if not thin:
            d["ann"] = _anns(nd, ctx)
            d["eann"] = _anns(e, ctx)
            d["comments"] = [list(nd.comments), list(e.comments)]
            d["age"] = nd.age
            b = e._bipartition
            d["bip"] = None if b is None else [b._split_bitmask, b._leafset_bitmask, b._tree_leafset_bitmask,
                                               b._is_rooted, bool(b.is_mutable)]
            if extras:
                d["extra"] = [[k, _vsum(nd.__dict__[k], ctx)] for k in _extras(nd, _NODE_STD)] + \
                             [[k, _vsum(e.__dict__[k], ctx)] for k in _extras(e, _EDGE_STD)]
        return d

    out = {"rooted": t._is_rooted, "weight": None if t.weight is None else float(t.weight).hex(), "label": t.label,
           "length_type": t.length_type, "root": node(t.seed_node)}
    if not thin:
        out["ann"] = _anns(t, ctx)
        out["comments"] = list(t.comments)
        enc = t.bipartition_encoding
        out["enc"] = None if enc is None else [b._split_bitmask for b in enc]
        out["maps"] = [None if m is None else sorted((k if isinstance(k, int) else k._split_bitmask) for k in m)
                       for m in (t._split_bitmask_edge_map, t._bipartition_edge_map)]
        if extras:
            out["extra"] = [[k, _vsum(t.__dict__[k], ctx)] for k in _extras(t, _TREE_STD)]
    return out


def summary(root, thin=False, shallow=False):
    """observable content of a datamodel object (labels, structure, lengths, rooting, annotations,
    comments, sequences, taxon labels), object references named by position.
    shallow: only what belongs to the top-level object itself (members are compared by identity
    elsewhere; objects inside annotation values are named by type only)"""
    import dendropy
    ctx = _positions(root)
    if shallow:
        ctx["loose"] = True
    if isinstance(root, dendropy.TaxonNamespace):
        d = summary_ns(root, ctx)
        if shallow:
            del d["taxa_ann"]
        return {"ns": d}
    out = {"ns": summary_ns(root.taxon_namespace, ctx, thin=thin)}
    if shallow:
        out = {}
    if isinstance(root, dendropy.Tree):
        out["tree"] = summary_tree(root, ctx, thin=thin)
        return out
    if isinstance(root, dendropy.TreeList):
        out["label"] = root.label
        out["ann"] = _anns(root, ctx)
        out["comments"] = list(root.comments)
        out["trees"] = len(root._trees) if shallow else [summary_tree(t, ctx) for t in root._trees]
        if shallow:
            del out["comments"]
            return out
        out["extra"] = [[k, _vsum(root.__dict__[k], ctx)] for k in
                        _extras(root, {"_label", "_taxon_namespace", "automigrate_taxon_namespace_on_assignment",
                                       "tree_type", "_trees", "comments", "_annotations"})]
        return out
    # character matrix
    tx = {id(x): i for i, x in enumerate(root.taxon_namespace._taxa)}
    out["label"] = root.label
    out["ann"] = _anns(root, ctx)
    out["comments"] = list(root.comments)
    seqs = []
    for taxon, s in ([] if shallow else root._taxon_sequence_map.items()):
        vals = [(_vsum(v, ctx) if isinstance(v, (int, float)) else str(v)) for v in s._character_values]
        seqs.append({"taxon": tx.get(id(taxon), "foreign"), "vals": vals, "ann": _anns(s, ctx),
                     "types": [None if c is None else c.label for c in s._character_types],
                     "cell_ann": [None if a is None else [[x.name, _vsum(x.value, ctx)] for x in a]
                                  for a in s._character_annotations]})
    out["seqs"] = seqs
    out["subsets"] = [[k, v.label, sorted(v.character_indices), _anns(v, ctx)] for k, v in root.character_subsets.items()]
    out["chartypes"] = [c.label for c in root.character_types]
    if hasattr(root, "state_alphabets"):
        out["alphabets"] = [None if a is None else [str(st) for st in a.state_iter()] for a in root.state_alphabets]
        own = set(id(st) for a in root.state_alphabets if a is not None for st in a.state_iter())
        # every cell is a state of one of the matrix's own alphabets
        out["alphabet_owns_cells"] = all(id(v) in own for sq in root._taxon_sequence_map.values() for v in sq._character_values)
    if shallow:
        del out["comments"]
        return out
    out["extra"] = [[k, _vsum(root.__dict__[k], ctx)] for k in
                    _extras(root, {"_label", "_taxon_namespace", "automigrate_taxon_namespace_on_assignment",
                                   "_taxon_sequence_map", "character_types", "comments", "character_subsets",
                                   "state_alphabets", "_default_state_alphabet", "_annotations"})]
    return out


# ----------------------------------------------------------------------------------------------
# taxon <-> bit assignment of a copied namespace (independent of the graph dump)
# ----------------------------------------------------------------------------------------------

def ns_index_report(root, cp):
    """When the copy has a namespace object of its own: every copied taxon has the accession index and the
    bitmask its source has in the source's namespace, and on every tree that carries a bipartition encoding
    the leafset bitmask of each edge names, through the copy's namespace, the copies of the taxa it names in
    the source.  -> list of discrepancies (strings)."""
    out = []
    ns0, ns1 = namespace_of(root), namespace_of(cp)
    if ns0 is None or ns1 is None or ns0 is ns1:
        return out
    t0, t1 = list(ns0._taxa), list(ns1._taxa)
    if len(t0) != len(t1):
        return ["namespace sizes %d / %d" % (len(t0), len(t1))]
    for i, (a, c) in enumerate(zip(t0, t1)):
        # accession_index and bitmask_taxa_list only read the look-up tables (taxon_bitmask would fill a cache:
        # the observation must not write into either side); the bitmask of a taxon is 1 << accession index
        try:
            ia, ic = ns0.accession_index(a), ns1.accession_index(c)
        except Exception as e:       # a taxon of the copy that its own namespace cannot look up
            out.append("taxon #%d %r: %s: %s" % (i, a.label, type(e).__name__, e))
            continue
        if ia != ic:
            out.append("taxon #%d %r: accession index %d in the source's namespace, %d in the copy's (bitmask %d / %d)"
                       % (i, a.label, ia, ic, 1 << ia, 1 << ic))
    pos0 = {id(t): i for i, t in enumerate(t0)}
    pos1 = {id(t): i for i, t in enumerate(t1)}
    for ti, (tr0, tr1) in enumerate(zip(trees_of(root), trees_of(cp))):
        n0s, n1s = list(tr0.preorder_node_iter()), list(tr1.preorder_node_iter())
        if len(n0s) != len(n1s):
            continue
        for ni, (a, c) in enumerate(zip(n0s, n1s)):
            b0 = getattr(a.edge, "_bipartition", None)
            b1 = getattr(c.edge, "_bipartition", None)
            if b0 is None or b1 is None:
                continue
            try:
                named0 = sorted(pos0[id(t)] for t in ns0.bitmask_taxa_list(b0.leafset_bitmask))
            except Exception:
                continue             # the source's own encoding is stale (e.g. after a removal): nothing to carry over
            try:
                named1 = sorted(pos1[id(t)] for t in ns1.bitmask_taxa_list(b1.leafset_bitmask))
            except Exception as e:
                out.append("tree %d node %d: leafset bitmask %d of the copy: %s: %s"
                           % (ti, ni, b1.leafset_bitmask, type(e).__name__, e))
                continue
            if named0 != named1:
                out.append("tree %d node %d: leafset bitmask names taxa #%s in the source, #%s in the copy"
                           % (ti, ni, named0, named1))
    return out[:6]
