"""Translator: PhylogeneticDistanceMatrix / Tree.mrca code of dendropy  ->  coq/Gen/Pdm.v  (property C14).

generate(repo) parses src/dendropy/calculate/phylogeneticdistance.py and
src/dendropy/datamodel/treemodel/_tree.py with `ast` and compiles the functions named in generate()
statement by statement into Gallina over the run-time library coq/Model/C14GenPrims.v (whose header
states the Python semantics assumed for every primitive):

  * a method of PhylogeneticDistanceMatrix becomes a function of the object state `self : pdm`
    (functional record update for every attribute store); node attributes (`node.desc_paths`) live in
    a heap threaded with it; a procedure returns `res <state>`, a function `res <value>`
  * `for x in e: body` becomes `py_for <list> <lifted body> <state>`: every loop body is emitted as
    its own definition (`<function>_for<k>`), parameterised by the variables it uses; the state of a
    loop is the tuple of the variables its body updates (`self`, `heap`, lists appended to, ...)
  * `d[k]` reads raise KeyError, missing node attributes AttributeError, `assert e is not None`
    AssertionError and narrows `e`; `x is None` tests become `match`; `try: a += b / except TypeError:
    pass` keeps the old value; `for v in (self.a, self.b, self.c)` over attribute references is unrolled
    (the loop variable aliases the attribute)
  * `while True` under `try ... except StopIteration` (Tree.mrca) becomes a step function iterated by
    py_loop on fuel; `next(it)` on an exhausted iterator runs the handler
  * SPECIALISE: attributes fixed by the scope of the model (is_store_path_edges = False, hence
    _taxon_phylogenetic_path_edges = {}), resolved at translation time; branches under them are
    compiled only for that value
  * arithmetic expressions of nj_tree / upgma_tree (Q criterion, reduction formulas, branch lengths,
    the comparisons choosing the pair) are extracted as closed Gallina functions over Q

It is a compiler for a small whitelisted subset driven by the AST (operators, call names, argument
order, comparison directions, slice bounds, which attribute is updated), not a table of known bodies.
Anything outside the subset raises Unsupported: py2coq then writes a stub and every dependent proof
breaks (fail closed).
"""
import ast
import os
import re

OUTPUT = "Pdm.v"


class Unsupported(Exception):
    pass


# ----------------------------------------------------------------------------------------------
# types
# ----------------------------------------------------------------------------------------------
PDM, NODE, ONODE, TAX, OTAX, LEN, OLEN, INT, BOOL, UNIT, MASK, QT, HEAP, DPATHS, SETTAX, SETPAIRS, NREF = (
    ("pdm",), ("node",), ("onode",), ("tax",), ("otax",), ("len",), ("olen",), ("int",), ("bool",), ("unit",),
    ("mask",), ("Q",), ("heap",), ("dpaths",), ("settax",), ("setpairs",), ("nref",))


def TList(t): return ("list", t)
def TTup(*ts): return ("tup",) + tuple(ts)
def TTbl(v): return ("tbl", v)
def TRow(v): return ("row", v)


def coq_ty(t):
    k = t[0]
    simple = {"pdm": "pdm", "node": "node", "onode": "(option node)", "tax": "Z", "otax": "(option Z)",
              "len": "Z", "olen": "(option Z)", "int": "Z", "bool": "bool", "unit": "unit", "mask": "Z",
              "Q": "Q", "heap": "heap", "dpaths": "dpaths", "settax": "(list Z)", "setpairs": "(list (Z * Z))",
              "nref": "Z"}
    if k in simple:
        return simple[k]
    if k == "list":
        return "(list %s)" % coq_ty(t[1])
    if k == "tup":
        s = coq_ty(t[1])
        for x in t[2:]:
            s = "(%s * %s)" % (s, coq_ty(x))
        return s
    if k == "tbl":
        return "(tbl %s)" % coq_ty(t[1])
    if k == "row":
        return "(dict %s)" % coq_ty(t[1])
    raise Unsupported("no Coq type for %r" % (t,))


def tup_pat(names):
    s = names[0]
    for x in names[1:]:
        s = "(%s, %s)" % (s, x)
    return s


# attributes of the PhylogeneticDistanceMatrix object: python name -> (record field, setter, type)
PDM_ATTRS = {
    "_tree_length": ("p_tree_length", "set_tree_length", LEN),
    "_num_edges": ("p_num_edges", "set_num_edges", INT),
    "_taxon_phylogenetic_distances": ("p_dist", "set_dist", TTbl(LEN)),
    "_taxon_phylogenetic_path_steps": ("p_steps", "set_steps", TTbl(INT)),
    "_mrca": ("p_mrca", "set_mrca", TTbl(NREF)),
    "_mapped_taxa": ("p_mapped", "set_mapped", SETTAX),
    "_all_distinct_mapped_taxa_pairs": ("p_pairs", "set_pairs", SETPAIRS),
}
# attributes whose value is fixed by the scope of the model (resolved at translation time)
SPECIALISE = {"is_store_path_edges": ("false", BOOL), "_taxon_phylogenetic_path_edges": ("EMPTYDICT", None)}
# attribute stores that are not part of the modelled state
UNMODELLED_STORES = {"taxon_namespace"}

ERRS = {"TypeError": "TypeErr", "ValueError": "ValueErr", "IndexError": "IndexErr", "AttributeError": "AttrErr",
        "KeyError": "KeyErr", "AssertionError": "AssertErr", "NullAssemblageException": "ValueErr"}


# python variable names that would shadow a Coq type or function used in the generated text
RESERVED = {"node", "heap", "tree", "dict", "tbl", "pdm", "res", "list", "dpaths", "ndict", "bool", "unit", "option", "fst", "snd"}


class Env:
    def __init__(self):
        self.vars = {}        # python name -> (coq text, type)
        self.order = []       # coq variables in scope, in binding order: (coq name, type)
        self.narrow = {}      # canonical expression key -> (coq text, type)
        self.alias = {}       # python name -> ast expression it stands for (unrolled loops)

    def copy(self):
        e = Env()
        e.vars = dict(self.vars)
        e.order = list(self.order)
        e.narrow = dict(self.narrow)
        e.alias = dict(self.alias)
        return e

    def bind(self, name, ty, coq=None):
        e = self.copy()
        coq = coq or (name + "_" if name in RESERVED else name)
        e.vars[name] = (coq, ty)
        e.order = [(c, t) for (c, t) in e.order if c != coq] + [(coq, ty)]
        e.narrow = {k: v for k, v in e.narrow.items() if not re.search(r"\b%s\b" % re.escape(name), k)}
        return e


class Fn:
    """compilation of one function; collects lifted loop bodies"""

    def __init__(self, gen, qual, ctx_params):
        self.gen = gen
        self.qual = qual
        self.ctx = ctx_params          # section variables available to every definition
        self.defs = []                 # lifted definitions (text)
        self.nfor = 0
        self.tmp = 0
        self.consts = {}               # parameters specialised to a constant: name -> bool
        self.ret_hint = None
        self.ret_types = []

    def snapshot(self):
        return (len(self.defs), self.nfor, self.tmp, len(self.ret_types))

    def restore(self, snap):
        del self.defs[snap[0]:]
        self.nfor, self.tmp = snap[1], snap[2]
        del self.ret_types[snap[3]:]

    def fresh(self, base):
        self.tmp += 1
        return "%s_%d" % (base, self.tmp)


# ----------------------------------------------------------------------------------------------
# expressions:  cexpr -> (binds, text, type);  binds = [(coq name, res-typed text)] hoisted in order
# ----------------------------------------------------------------------------------------------
def canon(e, env):
    """canonical key of an attribute expression, for narrowing (edge.length == edge_length)"""
    if isinstance(e, ast.Name):
        if e.id in env.alias:
            return canon(env.alias[e.id], env)
        return e.id
    if isinstance(e, ast.Attribute):
        base = canon(e.value, env)
        if e.attr == "length" and isinstance(e.value, ast.Attribute) and e.value.attr == "edge":
            return canon(e.value.value, env) + ".edge_length"
        return base + "." + e.attr
    raise Unsupported("canon")


def attr_chain(e):
    out = []
    while isinstance(e, ast.Attribute):
        out.append(e.attr)
        e = e.value
    out.reverse()
    return e, out


def cexpr(fn, e, env, want=None):
    if isinstance(e, ast.Name):
        if e.id in env.alias:
            return cexpr(fn, env.alias[e.id], env, want)
        if e.id in fn.consts:
            return [], "true" if fn.consts[e.id] else "false", BOOL
        if e.id not in env.vars:
            raise Unsupported("unbound variable %s" % e.id)
        return [], env.vars[e.id][0], env.vars[e.id][1]
    if isinstance(e, ast.Constant):
        v = e.value
        if v is None:
            return [], "tt", UNIT
        if v is True or v is False:
            return [], "true" if v else "false", BOOL
        if isinstance(v, int):
            if want == LEN:
                return [], ("%d" % (v * 1024) if v >= 0 else "(%d)" % (v * 1024)), LEN
            return [], ("%d" % v if v >= 0 else "(%d)" % v), INT
        if isinstance(v, float):
            if v * 1024 == int(v * 1024) and want == LEN:
                # a float literal used as an edge length / distance: units of 2^-10
                return [], ("%d" % int(v * 1024)), LEN
            from fractions import Fraction
            f = Fraction(v)
            return [], "(%d # %d)%%Q" % (f.numerator, f.denominator), QT
        raise Unsupported("constant %r" % (v,))
    if isinstance(e, ast.Attribute):
        try:
            key = canon(e, env)
        except Unsupported:
            key = None
        if key in env.narrow:
            return [], env.narrow[key][0], env.narrow[key][1]
        return cattr(fn, e, env)
    if isinstance(e, ast.Subscript):
        return csubscript(fn, e, env)
    if isinstance(e, ast.BinOp):
        return cbinop(fn, e, env, want)
    if isinstance(e, ast.Compare):
        return ccompare(fn, e, env)
    if isinstance(e, ast.UnaryOp) and isinstance(e.op, ast.Not):
        b, t, ty = ctruth(fn, e.operand, env)
        return b, "(negb %s)" % t, BOOL
    if isinstance(e, ast.BoolOp):
        parts = [ctruth(fn, v, env) for v in e.values]
        if any(p[0] for p in parts[1:]):
            raise Unsupported("raising operand in short-circuit position")
        op = "&&" if isinstance(e.op, ast.And) else "||"
        return parts[0][0], "(" + (" %s " % op).join(p[1] for p in parts) + ")", BOOL
    if isinstance(e, ast.Tuple):
        bs, ts, tys = [], [], []
        wants = want[1:] if want is not None and want[0] == "tup" and len(want) - 1 == len(e.elts) else [None] * len(e.elts)
        for x, w in zip(e.elts, wants):
            b, t, ty = cexpr(fn, x, env, w)
            bs += b; ts.append(t); tys.append(ty)
        return bs, tup_pat(ts), TTup(*tys)
    if isinstance(e, ast.Dict):
        if not e.keys:
            return [], "[]", ("emptydict",)
        if len(e.keys) == 1:
            kb, kt, kty = cexpr(fn, e.keys[0], env)
            vb, vt, vty = cexpr(fn, e.values[0], env, TTup(LEN, INT, UNIT) if kty == NODE else None)
            kt, kty = as_key(fn, kt, kty)
            if kty == NODE:
                return kb + vb, "[(%s, %s)]" % (kt, vt), DPATHS if vty == TTup(LEN, INT, UNIT) else ("ndict", vty)
            vt, vty = as_stored(vt, vty)
            return kb + vb, "[(%s, %s)]" % (kt, vt), TRow(vty)
        raise Unsupported("dict literal with several keys")
    if isinstance(e, ast.List) and not e.elts:
        return [], "[]", ("emptylist",)
    if isinstance(e, ast.Call):
        return ccall(fn, e, env)
    raise Unsupported("expression %s" % ast.dump(e)[:80])


def as_key(fn, text, ty):
    """a value used as dictionary key / set element"""
    if ty == TAX:
        return text, TAX
    if ty == OTAX:
        return "(tax_key none_key %s)" % text, TAX
    if ty == NODE:
        return text, NODE
    raise Unsupported("key of type %r" % (ty,))


def as_stored(text, ty):
    """a value stored in a table: node objects are stored as references"""
    if ty == NODE:
        return "(node_ref %s)" % text, NREF
    if ty == ONODE:
        return "(node_ref_opt none_key %s)" % text, NREF
    return text, ty


def cattr(fn, e, env):
    base, chain = attr_chain(e)
    if isinstance(base, ast.Name) and base.id in env.alias:
        b2, c2 = attr_chain(env.alias[base.id])
        base, chain = b2, c2 + chain
    bb, bt, bty = cexpr(fn, base, env)
    if bty == PDM:
        if len(chain) != 1:
            raise Unsupported("attribute chain on self: %s" % chain)
        a = chain[0]
        if a in SPECIALISE:
            if SPECIALISE[a][1] is None:
                return bb, "[]", ("emptydict",)
            return bb, SPECIALISE[a][0], SPECIALISE[a][1]
        if a in PDM_ATTRS:
            return bb, "(%s %s)" % (PDM_ATTRS[a][0], bt), PDM_ATTRS[a][2]
        raise Unsupported("attribute self.%s" % a)
    if bty == NODE:
        if chain in (["edge_length"], ["edge", "length"]):
            return bb, "(node_edge_length %s)" % bt, OLEN
        if chain == ["taxon"]:
            return bb, "(node_taxon %s)" % bt, OTAX
        if chain == ["parent_node"]:
            return bb, "(py_parent_node G %s)" % bt, ONODE
        if chain == ["desc_paths"]:
            if "heap" not in env.vars:
                raise Unsupported("node attribute outside a heap context")
            v = fn.fresh("dp")
            return bb + [(v, "heap_get %s %s" % (bt, env.vars["heap"][0]))], v, DPATHS
        if chain == ["edge", "bipartition", "leafset_bitmask"]:
            return bb, "(enc_get enc (node_id %s))" % bt, MASK
        raise Unsupported("node attribute %s" % ".".join(chain))
    raise Unsupported("attribute on %r" % (bty,))


def csubscript(fn, e, env):
    vb, vt, vty = cexpr(fn, e.value, env)
    sl = e.slice
    if isinstance(sl, ast.Slice):
        if sl.upper is not None or sl.step is not None or sl.lower is None:
            raise Unsupported("slice shape")
        if vty[0] != "list":
            raise Unsupported("slice of %r" % (vty,))
        lb, lt, lty = cexpr(fn, sl.lower, env)
        if lty != INT:
            raise Unsupported("slice bound type")
        return vb + lb, "(py_slice_from %s %s)" % (vt, lt), vty
    kb, kt, kty = cexpr(fn, sl, env)
    if vty[0] == "tup":
        if not isinstance(sl, ast.Constant) or not isinstance(sl.value, int):
            raise Unsupported("tuple index")
        n = len(vty) - 1
        i = sl.value
        t = vt
        for _ in range(n - 1 - i):
            t = "(fst %s)" % t
        if i > 0:
            t = "(snd %s)" % t
        return vb, t, vty[1 + i]
    if vty[0] == "list":
        if not (isinstance(sl, ast.Constant) and isinstance(sl.value, int) and sl.value >= 0):
            raise Unsupported("list index that is not a non-negative literal")
        v = fn.fresh("item")
        return vb + [(v, "py_index %s %d" % (vt, sl.value))], v, vty[1]
    if vty[0] == "tbl":
        kt, kty = as_key(fn, kt, kty)
        v = fn.fresh("row")
        return vb + kb + [(v, "(match dget %s %s with Some r => Ok r | None => Err KeyErr end)" % (kt, vt))], v, TRow(vty[1])
    if vty[0] == "row":
        kt, kty = as_key(fn, kt, kty)
        v = fn.fresh("ent")
        return vb + kb + [(v, "(match dget %s %s with Some r => Ok r | None => Err KeyErr end)" % (kt, vt))], v, vty[1]
    if vty == DPATHS:
        if kty != NODE:
            raise Unsupported("desc_paths key")
        v = fn.fresh("ent")
        return vb + kb + [(v, "nd_getitem %s %s" % (kt, vt))], v, TTup(LEN, INT, UNIT)
    raise Unsupported("subscript of %r" % (vty,))


def cbinop(fn, e, env, want):
    lb, lt, lty = cexpr(fn, e.left, env, want)
    rb, rt, rty = cexpr(fn, e.right, env, want if not isinstance(e.op, ast.Div) else None)
    op = type(e.op).__name__
    if op in ("Add", "Sub"):
        sym = "+" if op == "Add" else "-"
        if lty == rty and lty in (LEN, INT):
            return lb + rb, "(%s %s %s)" % (lt, sym, rt), lty
        if lty == rty == QT:
            return lb + rb, "(%s %s %s)%%Q" % (lt, sym, rt), QT
        raise Unsupported("%s on %r, %r" % (op, lty, rty))
    if op == "Mult" and QT in (lty, rty) and lty in (QT, INT) and rty in (QT, INT):
        return lb + rb, "(%s * %s)%%Q" % (to_q(lt, lty), to_q(rt, rty)), QT
    if op == "BitAnd" and lty == rty == MASK:
        return lb + rb, "(Z.land %s %s)" % (lt, rt), MASK
    if op == "Div":
        lq, rq = to_q(lt, lty), to_q(rt, rty)
        v = fn.fresh("quo")
        return lb + rb + [(v, "py_div %s %s" % (lq, rq))], v, QT
    raise Unsupported("operator %s" % op)


def to_q(text, ty):
    if ty == QT:
        return text
    if ty == LEN:
        return "(uq %s)" % text
    if ty == INT:
        return "(inject_Z %s)" % text
    raise Unsupported("no float view of %r" % (ty,))


def ccompare(fn, e, env):
    if len(e.ops) != 1:
        raise Unsupported("chained comparison")
    op = type(e.ops[0]).__name__
    l, r = e.left, e.comparators[0]
    if op in ("In", "NotIn"):
        lb, lt, lty = cexpr(fn, l, env)
        rb, rt, rty = cexpr(fn, r, env)
        lt, lty = as_key(fn, lt, lty)
        if rty[0] not in ("tbl", "row"):
            raise Unsupported("membership in %r" % (rty,))
        t = "(dmem %s %s)" % (lt, rt)
        return lb + rb, ("(negb %s)" % t if op == "NotIn" else t), BOOL
    lb, lt, lty = cexpr(fn, l, env)
    rb, rt, rty = cexpr(fn, r, env, want=lty)
    if op in ("Is", "IsNot", "Eq", "NotEq"):
        if lty == rty and lty in (TAX, INT, MASK, LEN, NREF):
            t = "(Z.eqb %s %s)" % (lt, rt)
        elif lty == rty == NODE and op in ("Is", "IsNot"):
            t = "(Z.eqb (node_id %s) (node_id %s))" % (lt, rt)
        else:
            raise Unsupported("comparison %s of %r and %r" % (op, lty, rty))
        return lb + rb, ("(negb %s)" % t if op in ("IsNot", "NotEq") else t), BOOL
    if op in ("Lt", "Gt", "LtE", "GtE"):
        if lty == rty and lty in (INT, LEN):
            sym = {"Lt": "<?", "Gt": ">?", "LtE": "<=?", "GtE": ">=?"}[op]
            return lb + rb, "(%s %s %s)" % (lt, sym, rt), BOOL
        if lty == rty == QT:
            if op == "Lt":
                return lb + rb, "(if Qlt_le_dec %s %s then true else false)" % (lt, rt), BOOL
            raise Unsupported("Q comparison %s" % op)
    raise Unsupported("comparison %s" % op)


def ctruth(fn, e, env):
    b, t, ty = cexpr(fn, e, env)
    if ty == BOOL:
        return b, t, BOOL
    if ty in (MASK, INT):
        return b, "(negb (Z.eqb %s 0))" % t, BOOL
    if ty[0] == "list":
        return b, "(negb (match %s with [] => true | _ => false end))" % t, BOOL
    raise Unsupported("truth value of %r" % (ty,))


def ccall(fn, e, env):
    f = e.func
    if isinstance(f, ast.Name):
        if f.id == "len" and len(e.args) == 1:
            b, t, ty = cexpr(fn, e.args[0], env)
            if ty[0] != "list":
                raise Unsupported("len of %r" % (ty,))
            return b, "(py_len %s)" % t, INT
        if f.id == "enumerate" and len(e.args) == 1:
            b, t, ty = cexpr(fn, e.args[0], env)
            if ty[0] != "list":
                raise Unsupported("enumerate of %r" % (ty,))
            return b, "(py_enumerate %s)" % t, TList(TTup(INT, ty[1]))
        if f.id == "sum" and len(e.args) == 1:
            b, t, ty = cexpr(fn, e.args[0], env)
            if ty[0] != "list" or ty[1] not in (LEN, INT):
                raise Unsupported("sum of %r" % (ty,))
            return b, "(py_sum %s)" % t, ty[1]
        if f.id == "float" and len(e.args) == 1:
            b, t, ty = cexpr(fn, e.args[0], env)
            return b, to_q(t, ty), QT
        if f.id == "iter" and len(e.args) == 1:
            b, t, ty = cexpr(fn, e.args[0], env)
            if ty[0] != "list":
                raise Unsupported("iter of %r" % (ty,))
            return b, t, ty
        raise Unsupported("call %s" % f.id)
    if isinstance(f, ast.Attribute) and isinstance(f.value, ast.Name) and f.value.id == "self" \
            and any(k[0] == f.attr for k in fn.gen.functions):
        if e.args:
            raise Unsupported("positional arguments in a call of self.%s" % f.attr)
        kw = {k.arg: k.value for k in e.keywords}
        for key, (coqname, pnames, rty) in fn.gen.functions.items():
            if key[0] != f.attr:
                continue
            cs = dict(key[1])
            if set(kw) != set(cs) | set(pnames):
                continue
            ok = True
            for c, val in cs.items():
                v = kw[c]
                got = fn.consts.get(v.id) if isinstance(v, ast.Name) else (v.value if isinstance(v, ast.Constant) else None)
                if got is not val:
                    ok = False
            if not ok:
                continue
            binds, args = [], []
            for p in pnames:
                b, t, ty = cexpr(fn, kw[p], env)
                binds += b
                args.append(t)
            v = fn.fresh("ret")
            return binds + [(v, "%s %s%s" % (coqname, env.vars["self"][0], "".join(" " + a for a in args)))], v, rty
        raise Unsupported("no translated variant of self.%s for these arguments" % f.attr)
    if isinstance(f, ast.Attribute):
        bb, bt, bty = (None, None, None)
        if f.attr == "child_nodes" and not e.args:
            bb, bt, bty = cexpr(fn, f.value, env)
            if bty != NODE:
                raise Unsupported("child_nodes on %r" % (bty,))
            return bb, "(node_child_nodes %s)" % bt, TList(NODE)
        if f.attr == "postorder_node_iter" and not e.args:
            bb, bt, bty = cexpr(fn, f.value, env)
            if bty != NODE:
                raise Unsupported("postorder_node_iter on %r" % (bty,))
            return bb, "(py_postorder_node_iter %s)" % bt, TList(NODE)
        if f.attr == "items" and not e.args:
            bb, bt, bty = cexpr(fn, f.value, env)
            if bty != DPATHS:
                raise Unsupported("items of %r" % (bty,))
            return bb, "(nd_items %s)" % bt, TList(TTup(NODE, TTup(LEN, INT, UNIT)))
        raise Unsupported("method %s" % f.attr)
    raise Unsupported("call")


# ----------------------------------------------------------------------------------------------
# statements (continuation passing): cstmts(fn, stmts, env, svars, kont) -> text of type res <state>
# ----------------------------------------------------------------------------------------------
def with_binds(binds, body):
    for name, text in reversed(binds):
        body = "do %s <- %s ;;\n%s" % (name, text, body)
    return body


def st_tuple(env, svars):
    return tup_pat([env.vars[v][0] for v in svars])


def st_type(env, svars):
    return TTup(*[env.vars[v][1] for v in svars]) if len(svars) > 1 else env.vars[svars[0]][1]


def target_pattern(fn, tgt, ty, env):
    """destructuring pattern for a loop / assignment target"""
    if isinstance(tgt, ast.Name):
        env = env.bind(tgt.id, ty)
        return env.vars[tgt.id][0], env
    if isinstance(tgt, ast.Tuple):
        if ty[0] != "tup" or len(ty) - 1 != len(tgt.elts):
            raise Unsupported("tuple target against %r" % (ty,))
        pats = []
        for t, x in zip(tgt.elts, ty[1:]):
            p, env = target_pattern(fn, t, x, env)
            pats.append(p)
        return tup_pat(pats), env
    raise Unsupported("target")


def assigned_names(stmts):
    out = []
    for s in stmts:
        for n in ast.walk(s):
            if isinstance(n, (ast.Assign, ast.AugAssign)):
                tgts = n.targets if isinstance(n, ast.Assign) else [n.target]
                for t in tgts:
                    for x in ast.walk(t):
                        if isinstance(x, ast.Name) and isinstance(x.ctx, ast.Store) and x.id not in out:
                            out.append(x.id)
            if isinstance(n, ast.Call) and isinstance(n.func, ast.Attribute) and n.func.attr == "append" \
                    and isinstance(n.func.value, ast.Name) and n.func.value.id not in out:
                out.append(n.func.value.id)
    return out


def touches_state(stmts, name, alias=()):
    """does the statement list update the object `name` (self / heap)?"""
    for s in stmts:
        for n in ast.walk(s):
            if isinstance(n, (ast.Assign, ast.AugAssign, ast.Delete)):
                tgts = n.targets if isinstance(n, (ast.Assign, ast.Delete)) else [n.target]
                for t in tgts:
                    b, chain = attr_chain(t.value if isinstance(t, ast.Subscript) else t)
                    while isinstance(b, ast.Subscript):
                        b, chain = attr_chain(b.value)
                    if name == "heap" and "desc_paths" in chain:
                        return True
                    if name == "self" and isinstance(b, ast.Name) and (b.id == "self" or b.id in alias):
                        return True
            if isinstance(n, ast.Call) and isinstance(n.func, ast.Attribute):
                b, chain = attr_chain(n.func)
                if name == "self" and isinstance(b, ast.Name) and b.id == "self":
                    return True
    return False


def cstmts(fn, stmts, env, svars, kont):
    if not stmts:
        return kont(env)
    s, rest = stmts[0], stmts[1:]
    nxt = lambda env2: cstmts(fn, rest, env2, svars, kont)

    if isinstance(s, ast.Expr) and isinstance(s.value, ast.Constant) and isinstance(s.value.value, str):
        return nxt(env)                       # docstring
    if isinstance(s, ast.Pass):
        return nxt(env)
    if isinstance(s, ast.Return):
        if rest:
            raise Unsupported("statements after return")
        if s.value is None:
            raise Unsupported("bare return")
        b, t, ty = cexpr(fn, s.value, env, want=fn.ret_hint)
        if fn.ret_hint == QT and ty != QT:
            t, ty = to_q(t, ty), QT
        t, ty = (as_stored(t, ty) if ty in (NODE, ONODE) and fn.ret_hint == NREF else (t, ty))
        fn.ret_types.append(ty)
        return with_binds(b, "Ok %s" % t)
    if isinstance(s, ast.Raise):
        name = s.exc.func if isinstance(s.exc, ast.Call) else s.exc
        name = name.attr if isinstance(name, ast.Attribute) else name.id
        if name not in ERRS:
            raise Unsupported("raise %s" % name)
        return "Err %s" % ERRS[name]
    if isinstance(s, ast.Assert):
        t = s.test
        if isinstance(t, ast.Compare) and isinstance(t.ops[0], ast.IsNot) and isinstance(t.comparators[0], ast.Constant) \
                and t.comparators[0].value is None:
            b, x, ty = cexpr(fn, t.left, env)
            inner = {OTAX: TAX, OLEN: LEN, ONODE: NODE}.get(ty)
            if inner is None:
                raise Unsupported("assert on %r" % (ty,))
            v = fn.fresh(re.sub(r"\W+", "_", canon(t.left, env)))
            env2 = env.copy()
            env2.order = env2.order + [(v, inner)]
            env2.narrow[canon(t.left, env)] = (v, inner)
            return with_binds(b, "match %s with\n| None => Err AssertErr\n| Some %s =>\n%s\nend" % (x, v, nxt(env2)))
        raise Unsupported("assert shape")
    if isinstance(s, ast.Delete):
        if len(s.targets) == 1 and isinstance(s.targets[0], ast.Attribute) and s.targets[0].attr == "desc_paths":
            b, t, ty = cexpr(fn, s.targets[0].value, env)
            if ty != NODE:
                raise Unsupported("del target")
            h = env.vars["heap"][0]
            return with_binds(b, "let %s := heap_del %s %s in\n%s" % (h, t, h, nxt(env)))
        raise Unsupported("del shape")
    if isinstance(s, ast.Try):
        return ctry(fn, s, env, nxt)
    if isinstance(s, ast.Expr) and isinstance(s.value, ast.Call):
        return ccallstmt(fn, s.value, env, nxt)
    if isinstance(s, ast.AugAssign):
        return caug(fn, s, env, nxt)
    if isinstance(s, ast.Assign):
        if len(s.targets) != 1:
            raise Unsupported("multiple assignment targets")
        return cassign(fn, s.targets[0], s.value, env, nxt)
    if isinstance(s, ast.If):
        return cif(fn, s, env, svars, nxt, rest)
    if isinstance(s, ast.For):
        return cfor(fn, s, env, svars, nxt)
    raise Unsupported("statement %s" % type(s).__name__)


def store_self(env, attr, value):
    setter = PDM_ATTRS[attr][1]
    sv = env.vars["self"][0]
    return "let %s := %s %s %s in\n" % (sv, setter, sv, value)


def self_attr_target(t, env):
    """self.<attr> possibly through an alias; returns attr name or None"""
    if isinstance(t, ast.Name) and t.id in env.alias:
        t = env.alias[t.id]
    if isinstance(t, ast.Attribute) and isinstance(t.value, ast.Name) and t.value.id == "self" and t.attr in PDM_ATTRS:
        return t.attr
    return None


def cassign(fn, tgt, val, env, nxt):
    # local variable
    if isinstance(tgt, ast.Name):
        b, t, ty = cexpr(fn, val, env)
        if ty == ("emptylist",):
            # the element type is the one for which the rest of the function type-checks
            last = None
            for cand in (LEN, INT, QT, TAX):
                snap = fn.snapshot()
                try:
                    env2 = env.bind(tgt.id, TList(cand))
                    return with_binds(b, "let %s := (@nil %s) in\n%s" % (env2.vars[tgt.id][0], coq_ty(cand), nxt(env2)))
                except Unsupported as ex:
                    fn.restore(snap)
                    last = ex
            raise Unsupported("no element type fits the empty list %s (%s)" % (tgt.id, last))
        env2 = env.bind(tgt.id, ty)
        return with_binds(b, "let %s := %s in\n%s" % (env2.vars[tgt.id][0], t, nxt(env2)))
    if isinstance(tgt, ast.Tuple):
        b, t, ty = cexpr(fn, val, env)
        pat, env2 = target_pattern(fn, tgt, ty, env)
        return with_binds(b, "let '%s := %s in\n%s" % (pat, t, nxt(env2)))
    # self.attr = value
    if isinstance(tgt, ast.Attribute) and isinstance(tgt.value, ast.Name) and tgt.value.id == "self":
        if tgt.attr in UNMODELLED_STORES:
            return nxt(env)
        if tgt.attr not in PDM_ATTRS:
            raise Unsupported("store to self.%s" % tgt.attr)
        b, t, ty = cexpr(fn, val, env, want=PDM_ATTRS[tgt.attr][2])
        if ty != PDM_ATTRS[tgt.attr][2]:
            raise Unsupported("store of %r to self.%s" % (ty, tgt.attr))
        return with_binds(b, store_self(env, tgt.attr, t) + nxt(env))
    # node.desc_paths = {...}
    if isinstance(tgt, ast.Attribute) and tgt.attr == "desc_paths":
        nb, nt, nty = cexpr(fn, tgt.value, env)
        b, t, ty = cexpr(fn, val, env)
        if nty != NODE or ty not in (DPATHS, ("emptydict",)):
            raise Unsupported("desc_paths store")
        h = env.vars["heap"][0]
        return with_binds(nb + b, "let %s := heap_set %s %s %s in\n%s" % (h, nt, t, h, nxt(env)))
    if isinstance(tgt, ast.Subscript):
        inner = tgt.value
        # node.desc_paths[k] = v
        if isinstance(inner, ast.Attribute) and inner.attr == "desc_paths":
            nb, nt, nty = cexpr(fn, inner.value, env)
            kb, kt, kty = cexpr(fn, tgt.slice, env)
            vb, vt, vty = cexpr(fn, val, env)
            if nty != NODE or kty != NODE or vty != TTup(LEN, INT, UNIT):
                raise Unsupported("desc_paths item store of %r" % (vty,))
            h = env.vars["heap"][0]
            d = fn.fresh("dp")
            return with_binds(nb + kb + vb + [(d, "heap_get %s %s" % (nt, h))],
                              "let %s := heap_set %s (nd_set %s %s %s) %s in\n%s" % (h, nt, kt, vt, d, h, nxt(env)))
        # self.T[a] = {...}
        a = self_attr_target(inner, env)
        if a is not None and PDM_ATTRS[a][2][0] == "tbl":
            kb, kt, kty = cexpr(fn, tgt.slice, env)
            kt, kty = as_key(fn, kt, kty)
            vb, vt, vty = cexpr(fn, val, env)
            if vty != ("emptydict",) and vty != TRow(PDM_ATTRS[a][2][1]):
                raise Unsupported("row store of %r into self.%s" % (vty, a))
            field = "(%s %s)" % (PDM_ATTRS[a][0], env.vars["self"][0])
            return with_binds(kb + vb, store_self(env, a, "(dset %s %s %s)" % (kt, vt, field)) + nxt(env))
        # self.T[a][b] = v
        if isinstance(inner, ast.Subscript):
            a = self_attr_target(inner.value, env)
            if a is not None and PDM_ATTRS[a][2][0] == "tbl":
                k1b, k1t, k1ty = cexpr(fn, inner.slice, env)
                k1t, _ = as_key(fn, k1t, k1ty)
                k2b, k2t, k2ty = cexpr(fn, tgt.slice, env)
                k2t, _ = as_key(fn, k2t, k2ty)
                vb, vt, vty = cexpr(fn, val, env, want=PDM_ATTRS[a][2][1])
                vt, vty = as_stored(vt, vty)
                if vty != PDM_ATTRS[a][2][1]:
                    raise Unsupported("entry store of %r into self.%s" % (vty, a))
                field = "(%s %s)" % (PDM_ATTRS[a][0], env.vars["self"][0])
                t = fn.fresh("tb")
                return with_binds(k1b + k2b + vb + [(t, "tset2 %s %s %s %s" % (k1t, k2t, vt, field))],
                                  store_self(env, a, t) + nxt(env))
    raise Unsupported("assignment target %s" % ast.dump(tgt)[:80])


def caug(fn, s, env, nxt, wrap=None):
    if not isinstance(s.op, ast.Add):
        raise Unsupported("augmented %s" % type(s.op).__name__)
    a = self_attr_target(s.target, env)
    if a is None:
        raise Unsupported("augmented target")
    field = "(%s %s)" % (PDM_ATTRS[a][0], env.vars["self"][0])
    b, t, ty = cexpr(fn, s.value, env, want=PDM_ATTRS[a][2])
    if ty == PDM_ATTRS[a][2]:
        return with_binds(b, store_self(env, a, "(%s + %s)" % (field, t)) + nxt(env))
    if (PDM_ATTRS[a][2], ty) == (LEN, OLEN):
        v = fn.fresh("sum")
        sv = env.vars["self"][0]
        core = "py_add_opt %s %s" % (field, t)
        if wrap:
            core = wrap(core, field)
        return with_binds(b + [(v, core)], store_self(env, a, v) + nxt(env))
    raise Unsupported("augmented assignment of %r to self.%s" % (ty, a))


def ctry(fn, s, env, nxt):
    # try: <target> += <expr>   except TypeError: pass
    if len(s.body) == 1 and isinstance(s.body[0], ast.AugAssign) and len(s.handlers) == 1 and not s.orelse and not s.finalbody:
        h = s.handlers[0]
        if isinstance(h.type, ast.Name) and h.type.id == "TypeError" and len(h.body) == 1 and isinstance(h.body[0], ast.Pass):
            return caug(fn, s.body[0], env, nxt, wrap=lambda core, old: "py_except_type_error (%s) %s" % (core, old))
    raise Unsupported("try shape")


def ccallstmt(fn, c, env, nxt):
    f = c.func
    if not isinstance(f, ast.Attribute):
        raise Unsupported("call statement")
    # self.clear() / self._other_method()
    if isinstance(f.value, ast.Name) and f.value.id == "self":
        sv = env.vars["self"][0]
        if f.attr == "clear" and not c.args:
            return "let %s := py_clear %s in\n%s" % (sv, sv, nxt(env))
        if f.attr in fn.gen.procedures and not c.args:
            return "do %s <- %s %s ;;\n%s" % (sv, fn.gen.procedures[f.attr], sv, nxt(env))
        raise Unsupported("self.%s(...)" % f.attr)
    # self._set.add(x)
    a = self_attr_target(f.value, env)
    if a is not None and f.attr == "add" and len(c.args) == 1:
        field = "(%s %s)" % (PDM_ATTRS[a][0], env.vars["self"][0])
        if PDM_ATTRS[a][2] == SETTAX:
            b, t, ty = cexpr(fn, c.args[0], env)
            t, _ = as_key(fn, t, ty)
            return with_binds(b, store_self(env, a, "(add_once %s %s)" % (t, field)) + nxt(env))
        if PDM_ATTRS[a][2] == SETPAIRS:
            x = c.args[0]
            if isinstance(x, ast.Call) and isinstance(x.func, ast.Name) and x.func.id == "frozenset" and len(x.args) == 1 \
                    and isinstance(x.args[0], ast.List) and len(x.args[0].elts) == 2:
                b1, t1, ty1 = cexpr(fn, x.args[0].elts[0], env)
                b2, t2, ty2 = cexpr(fn, x.args[0].elts[1], env)
                t1, _ = as_key(fn, t1, ty1)
                t2, _ = as_key(fn, t2, ty2)
                return with_binds(b1 + b2, store_self(env, a, "(pairs_add %s %s %s)" % (t1, t2, field)) + nxt(env))
        raise Unsupported("add to %s" % a)
    # local_list.append(x)
    if isinstance(f.value, ast.Name) and f.attr == "append" and len(c.args) == 1 and f.value.id in env.vars:
        name = f.value.id
        lt, lty = env.vars[name]
        b, t, ty = cexpr(fn, c.args[0], env)
        if lty[0] != "list" or lty[1] != ty:
            raise Unsupported("append of %r to %r" % (ty, lty))
        return with_binds(b, "let %s := %s ++ [%s] in\n%s" % (lt, lt, t, nxt(env)))
    raise Unsupported("call statement %s" % ast.dump(c)[:80])


def none_test(test):
    """`e is None` / `e is not None` -> (e, positive)"""
    if isinstance(test, ast.Compare) and len(test.ops) == 1 and isinstance(test.comparators[0], ast.Constant) \
            and test.comparators[0].value is None:
        if isinstance(test.ops[0], ast.Is):
            return test.left, True
        if isinstance(test.ops[0], ast.IsNot):
            return test.left, False
    return None, None


def pure_local_branches(fn, a, env_a, b, env_b):
    """both branches of an `if`; a float literal in one takes the type the other branch gives the variable"""
    pa, pb = pure_local_branch(fn, a, env_a), pure_local_branch(fn, b, env_b)
    if pa is None or pb is None or list(pa) != list(pb) or len(pa) != 1:
        return pa, pb
    name = list(pa)[0]
    if pa[name][1] != pb[name][1]:
        pa2, pb2 = pure_local_branch(fn, a, env_a, pb[name][1]), pure_local_branch(fn, b, env_b, pa[name][1])
        if pa2[name][1] == pb[name][1]:
            return pa2, pb
        if pb2[name][1] == pa[name][1]:
            return pa, pb2
    return pa, pb


def pure_local_branch(fn, stmts, env, want=None):
    """a branch consisting of assignments to local names with non-raising values -> {name: (text, type)}"""
    out = {}
    for s in stmts:
        if not (isinstance(s, ast.Assign) and len(s.targets) == 1 and isinstance(s.targets[0], ast.Name)):
            return None
        b, t, ty = cexpr(fn, s.value, env, want=want)
        if b:
            return None
        out[s.targets[0].id] = (t, ty)
        env = env.bind(s.targets[0].id, ty, coq=t)
    return out


def cif(fn, s, env, svars, nxt, rest):
    t = s.test
    # x is None / is not None with narrowing
    ne, positive = none_test(t)
    if ne is not None:
        b, x, ty = cexpr(fn, ne, env)
        inner = {OTAX: TAX, OLEN: LEN, ONODE: NODE}.get(ty)
        if inner is None:
            raise Unsupported("None test on %r" % (ty,))
        none_branch, some_branch = (s.body, s.orelse) if positive else (s.orelse, s.body)
        v = fn.fresh(re.sub(r"\W+", "_", canon(ne, env)))
        env_some = env.copy()
        env_some.order = env_some.order + [(v, inner)]
        env_some.narrow[canon(ne, env)] = (v, inner)
        pn, ps = pure_local_branches(fn, none_branch, env, some_branch, env_some)
        if pn is not None and ps is not None and list(pn) == list(ps) and len(pn) == 1:
            name = list(pn)[0]
            if pn[name][1] != ps[name][1]:
                raise Unsupported("branches assign different types")
            env2 = env.bind(name, pn[name][1])
            return with_binds(b, "let %s := match %s with None => %s | Some %s => %s end in\n%s"
                              % (env2.vars[name][0], x, pn[name][0], v, ps[name][0], nxt(env2)))
        raise Unsupported("None test with effects")
    b, c, _ = ctruth(fn, t, env)
    # both branches only assign one local
    pa, pb = pure_local_branches(fn, s.body, env, s.orelse, env) if s.orelse else (pure_local_branch(fn, s.body, env), None)
    if pa is not None and pb is not None and list(pa) == list(pb) and len(pa) == 1:
        name = list(pa)[0]
        if pa[name][1] != pb[name][1]:
            raise Unsupported("branches assign different types")
        env2 = env.bind(name, pa[name][1])
        return with_binds(b, "let %s := if %s then %s else %s in\n%s" % (env2.vars[name][0], c, pa[name][0], pb[name][0], nxt(env2)))
    if pa is not None and not s.orelse and len(pa) == 1 and list(pa)[0] in env.vars:
        name = list(pa)[0]
        cur = env.vars[name][0]
        return with_binds(b, "let %s := if %s then %s else %s in\n%s" % (cur, c, pa[name][0], cur, nxt(env)))
    # general: both branches run to the end of the enclosing block separately when nothing follows,
    # otherwise they return the state
    if not rest or terminates(s.body) or terminates(s.orelse):
        # a branch that returns does not reach the statements after the `if`
        ka = cstmts(fn, list(s.body), env, svars, nxt)
        kb = cstmts(fn, list(s.orelse), env, svars, nxt)
        return with_binds(b, "if %s\nthen %s\nelse %s" % (c, ka, kb))
    fin = lambda e: "Ok %s" % st_tuple(e, svars)
    ka = cstmts(fn, list(s.body), env, svars, fin)
    kb = cstmts(fn, list(s.orelse), env, svars, fin)
    r = fn.fresh("st")
    return with_binds(b, "do %s <- (if %s\nthen %s\nelse %s) ;;\nlet '%s := %s in\n%s"
                      % (r, c, ka, kb, st_tuple(env, svars), r, nxt(env)))


def cfor(fn, s, env, svars, nxt):
    if s.orelse:
        raise Unsupported("for-else")
    it = s.iter
    # for v in (self.a, self.b, ...): unroll, v aliases the attribute
    if isinstance(it, ast.Tuple) and isinstance(s.target, ast.Name) and all(self_attr_target(x, env) for x in it.elts):
        def unroll(i, env_i):
            if i == len(it.elts):
                return nxt(env_i)
            e2 = env_i.copy()
            e2.alias[s.target.id] = it.elts[i]
            return cstmts(fn, list(s.body), e2, svars, lambda e3, i=i: unroll(i + 1, drop_alias(e3, s.target.id)))
        return unroll(0, env)
    # the list iterated
    b, t, ty = cexpr(fn, it, env)
    if ty == ("emptydict",):
        return nxt(env)                       # loop over a dict known to be empty
    dict_getter = None
    if ty[0] in ("tbl", "row") and isinstance(it, ast.Name) and it.id not in env.alias and it.id in env.vars:
        # a local dict that the body does not touch: its keys in order
        for n in ast.walk(ast.Module(body=list(s.body), type_ignores=[])):
            if isinstance(n, (ast.Assign, ast.AugAssign, ast.Delete)):
                for tg in (n.targets if isinstance(n, (ast.Assign, ast.Delete)) else [n.target]):
                    base = tg
                    while isinstance(base, (ast.Subscript, ast.Attribute)):
                        base = base.value
                    if isinstance(base, ast.Name) and base.id == it.id:
                        raise Unsupported("dict %s modified while iterated" % it.id)
            if isinstance(n, ast.Call) and isinstance(n.func, ast.Attribute) and isinstance(n.func.value, ast.Name) \
                    and n.func.value.id == it.id:
                raise Unsupported("method call on dict %s while iterated" % it.id)
        t, ty = "(dict_keys %s)" % t, TList(TAX)
    if ty[0] in ("tbl", "row"):
        # iteration over a live dict of the object: the dict is re-read from the state at every fetch
        # (py_for_dict: RuntimeError when its size changed)
        dict_getter = live_dict(fn, it, env, s.body)
        ty = TList(TAX)
    if ty[0] != "list":
        raise Unsupported("for over %r" % (ty,))
    # loop state: the enclosing state variables the body updates + locals it re-binds
    carried = [v for v in svars if touches_state(s.body, v, env.alias)]
    for name in assigned_names(s.body):
        if name in env.vars and name not in carried and name not in names_in_target(s.target):
            carried.append(name)
    if not carried:
        raise Unsupported("loop without effect")
    pat, env_b = target_pattern(fn, s.target, ty[1], env)
    fin = lambda e: "Ok %s" % st_tuple(e, carried)
    body = cstmts(fn, list(s.body), env_b, carried, fin)
    fn.nfor += 1
    name = "%s_for%d" % (fn.qual, fn.nfor)
    # parameters: the variables in scope that the body mentions
    state_coq = [env.vars[v][0] for v in carried]
    pat_names = set(re.findall(r"[A-Za-z_][A-Za-z_0-9']*", pat))
    params = [(c, ty2) for (c, ty2) in env.order
              if c not in state_coq and c not in pat_names and re.search(r"(?<![A-Za-z_0-9'])%s(?![A-Za-z_0-9'])" % re.escape(c), body)]
    sty = coq_ty(st_type(env, carried))
    fn.defs.append("Definition %s %s(x_ : %s) (s_ : %s) : res %s :=\nlet '%s := x_ in\nlet '%s := s_ in\n%s."
                   % (name, "".join("(%s : %s) " % (c, coq_ty(ty2)) for c, ty2 in params), coq_ty(ty[1]), sty, sty,
                      pat, st_tuple(env, carried), body))
    r = fn.fresh("st")
    if dict_getter is not None:
        if "self" not in carried:
            raise Unsupported("loop over a dict of self that does not carry self")
        call = "py_for_dict (fun s_ => let '%s := s_ in %s) (%s%s) %s" % (
            st_tuple(env, carried), dict_getter, name, "".join(" " + c for c, _ in params), st_tuple(env, carried))
    else:
        call = "py_for %s (%s%s) %s" % (t, name, "".join(" " + c for c, _ in params), st_tuple(env, carried))
    return with_binds(b, "do %s <- %s ;;\nlet '%s := %s in\n%s" % (r, call, st_tuple(env, carried), r, nxt(env)))


def resolve_alias(e, env):
    while isinstance(e, ast.Name) and e.id in env.alias:
        e = env.alias[e.id]
    return e


def live_dict(fn, it, env, body):
    """text (over the loop state) of the dict object iterated by `for k in <it>`: self.<table> or
    self.<table>[key].  The object read at every fetch is the one the loop started with only if the body
    never rebinds an existing row of that table: every `self.<table>[K] = ...` in the body must sit under
    `if K not in self.<table>` (checked here)."""
    it = resolve_alias(it, env)
    if isinstance(it, ast.Subscript):
        table, key = resolve_alias(it.value, env), it.slice
    else:
        table, key = it, None
    attr = self_attr_target(table, env)
    if attr is None or PDM_ATTRS[attr][2][0] != "tbl":
        raise Unsupported("iteration over a dict that is not a table of self")

    def same_table(e):
        return self_attr_target(resolve_alias(e, env), env) == attr

    def check(stmts, guards):
        for st in stmts:
            if isinstance(st, ast.Assign):
                for tg in st.targets:
                    if isinstance(tg, ast.Subscript) and same_table(tg.value) and ast.dump(tg.slice) not in guards:
                        raise Unsupported("row of self.%s rebound while the table is iterated" % attr)
            elif isinstance(st, ast.If):
                g = list(guards)
                t = st.test
                if isinstance(t, ast.Compare) and len(t.ops) == 1 and isinstance(t.ops[0], ast.NotIn) and same_table(t.comparators[0]):
                    g.append(ast.dump(t.left))
                check(st.body, g)
                check(st.orelse, guards)
            elif isinstance(st, (ast.For, ast.While)):
                check(st.body, guards)
            elif isinstance(st, (ast.Delete, ast.Try, ast.With)):
                raise Unsupported("statement %s inside a loop over a live dict" % type(st).__name__)
    check(body, [])
    field = "(%s %s)" % (PDM_ATTRS[attr][0], env.vars["self"][0])
    if key is None:
        return field
    kb, kt, kty = cexpr(fn, key, env)
    if kb:
        raise Unsupported("raising key of the iterated row")
    kt, _ = as_key(fn, kt, kty)
    return "(row_of %s %s)" % (kt, field)


def names_in_target(t):
    return {n.id for n in ast.walk(t) if isinstance(n, ast.Name)}


def drop_alias(env, name):
    e = env.copy()
    e.alias.pop(name, None)
    return e


# ----------------------------------------------------------------------------------------------
# functions
# ----------------------------------------------------------------------------------------------
class Prune(ast.NodeTransformer):
    """resolve `if self.<specialised attribute>:` and `if <specialised parameter>:` at translation time
    (the other branch is not compiled)"""

    def __init__(self, consts=None):
        self.consts = consts or {}

    def visit_If(self, n):
        self.generic_visit(n)
        t = n.test
        if isinstance(t, ast.Name) and t.id in self.consts:
            return (n.body if self.consts[t.id] else n.orelse) or [ast.Pass()]
        if isinstance(t, ast.Attribute) and isinstance(t.value, ast.Name) and t.value.id == "self" and t.attr in SPECIALISE \
                and SPECIALISE[t.attr][1] == BOOL:
            branch = n.body if SPECIALISE[t.attr][0] == "true" else n.orelse
            return branch or [ast.Pass()]
        return n


def terminates(stmts):
    """every path through the statement list ends in return / raise"""
    if not stmts:
        return False
    s = stmts[-1]
    if isinstance(s, (ast.Return, ast.Raise)):
        return True
    if isinstance(s, ast.If):
        return terminates(s.body) and terminates(s.orelse)
    return False


class Gen:
    def __init__(self, repo):
        self.repo = repo
        self.procedures = {}       # python method name -> coq name, for calls between translated methods
        self.functions = {}        # (python method name, specialised parameters) -> (coq name, parameters, type)
        self.out = []

    def parse(self, rel):
        with open(os.path.join(self.repo, "src", "dendropy", rel)) as f:
            return ast.parse(f.read())

    def find(self, mod, cls, name, consts=None):
        import copy
        for n in mod.body:
            if isinstance(n, ast.ClassDef) and n.name == cls:
                for m in n.body:
                    if isinstance(m, ast.FunctionDef) and m.name == name:
                        return ast.fix_missing_locations(Prune(consts).visit(copy.deepcopy(m)))
        raise Unsupported("%s.%s not found" % (cls, name))

    def method(self, fdef, qual, params, svars, ret_hint=None, extra_state=None, comment="", consts=None):
        """params: python parameter name -> type (self excluded unless listed); svars: state variables;
        consts: parameters specialised to a constant (the definition does not take them)"""
        fn = Fn(self, qual, None)
        fn.ret_hint = ret_hint
        fn.ret_types = []
        fn.consts = dict(consts or {})
        env = Env()
        args = [a.arg for a in fdef.args.args if a.arg not in fn.consts]
        for a in args:
            if a not in params:
                raise Unsupported("%s: parameter %s has no declared type" % (qual, a))
            env = env.bind(a, params[a])
        for name, (text, ty) in (extra_state or {}).items():
            env = env.bind(name, ty)
        procedure = ret_hint is None
        if procedure:
            kont = lambda e: "Ok %s" % st_tuple(e, ["self"])
        else:
            def kont(e):
                raise Unsupported("%s: control reaches the end of a function that returns values" % qual)
        inits = "".join("let %s := %s in\n" % (env.vars[name][0], text) for name, (text, ty) in (extra_state or {}).items())
        body = inits + cstmts(fn, list(fdef.body), env, svars, kont)
        if procedure:
            rty = "pdm"
        else:
            tys = set(fn.ret_types)
            if len(tys) != 1:
                raise Unsupported("%s: return types %r" % (qual, tys))
            rty = coq_ty(tys.pop())
        for d in fn.defs:
            self.out.append(d)
        self.out.append("(* %s%s *)\nDefinition %s %s: res %s :=\n%s."
                        % (qual.replace("_", ".", 1), comment, qual,
                           "".join("(%s : %s) " % (env.vars[a][0], coq_ty(params[a])) for a in args), rty, body))
        if not procedure:
            key = (fdef.name, tuple(sorted(fn.consts.items())))
            self.functions[key] = (qual, [a for a in args if a != "self"], fn.ret_types[0])
        return fn


def mrca_loop(gen, fdef):
    """the descent loop of Tree.mrca: everything from the test of the start node's bitmask to the end"""
    body = fdef.body
    idx = None
    for i, s in enumerate(body):
        if isinstance(s, ast.Try):
            idx = i
    if idx is None or idx != len(body) - 1:
        raise Unsupported("Tree.mrca: no final try statement")
    # the statements between the (possible) refresh and the loop
    start = idx
    while start > 0 and not (isinstance(body[start - 1], ast.If) and any(
            isinstance(n, ast.Call) and isinstance(n.func, ast.Attribute) and n.func.attr == "encode_bipartitions"
            for n in ast.walk(body[start - 1]))):
        start -= 1
    pre = body[start:idx]
    tr = body[idx]
    if len(tr.handlers) != 1 or not isinstance(tr.handlers[0].type, ast.Name) or tr.handlers[0].type.id != "StopIteration" \
            or tr.orelse or tr.finalbody or len(tr.body) != 1 or not isinstance(tr.body[0], ast.While):
        raise Unsupported("Tree.mrca: try shape")
    wh = tr.body[0]
    if not (isinstance(wh.test, ast.Constant) and wh.test.value is True) or wh.orelse:
        raise Unsupported("Tree.mrca: loop is not `while True`")
    fn = Fn(gen, "Tree_mrca", None)
    fn.ret_hint = None
    fn.ret_types = []
    env = Env()
    env = env.bind("start_node", NODE)
    env = env.bind("leafset_bitmask", MASK)
    # handler: a single return of a loop variable
    h = tr.handlers[0].body
    if len(h) != 1 or not isinstance(h[0], ast.Return):
        raise Unsupported("Tree.mrca: handler shape")

    # statements before the loop: an early `return None` test, then initialisations of the loop state
    def pre_code(stmts, env, k):
        if not stmts:
            return k(env)
        s = stmts[0]
        if isinstance(s, ast.If) and not s.orelse and len(s.body) == 1 and isinstance(s.body[0], ast.Return) \
                and isinstance(s.body[0].value, ast.Constant) and s.body[0].value.value is None:
            b, c, _ = ctruth(fn, s.test, env)
            if b:
                raise Unsupported("raising test")
            return "if %s then Ok None\nelse %s" % (c, pre_code(stmts[1:], env, k))
        if isinstance(s, ast.Assign) and len(s.targets) == 1 and isinstance(s.targets[0], ast.Name):
            b, t, ty = cexpr(fn, s.value, env)
            if b:
                raise Unsupported("raising initialiser")
            return "let %s := %s in\n%s" % (s.targets[0].id, t, pre_code(stmts[1:], env.bind(s.targets[0].id, ty), k))
        raise Unsupported("Tree.mrca: statement before the loop: %s" % type(s).__name__)

    def loop(env):
        state = [v for v in assigned_names(wh.body) if v in env.vars]      # loop-carried variables
        if not state:
            raise Unsupported("loop state")
        hb, ht, hty = cexpr(fn, h[0].value, env)
        if hb or hty != NODE:
            raise Unsupported("handler value")

        def step(stmts, env, locals_):
            if not stmts:
                return "LContinue %s" % tup_pat([env.vars[v][0] for v in state])
            s, rest = stmts[0], stmts[1:]
            if isinstance(s, ast.Assign) and len(s.targets) == 1 and isinstance(s.targets[0], ast.Name):
                name = s.targets[0].id
                v = s.value
                if isinstance(v, ast.Call) and isinstance(v.func, ast.Name) and v.func.id == "next" and len(v.args) == 1:
                    b, t, ty = cexpr(fn, v.args[0], env)
                    if b or ty[0] != "list" or not isinstance(v.args[0], ast.Name):
                        raise Unsupported("next() argument")
                    it = v.args[0].id
                    e2 = env.bind(name, ty[1]).bind(it, ty)
                    return ("match py_next %s with\n| None => LReturn (Some %s)\n| Some (%s, %s) =>\n%s\nend"
                            % (t, ht, name, it, step(rest, e2, locals_)))
                b, t, ty = cexpr(fn, v, env)
                if b:
                    raise Unsupported("raising expression in the loop")
                return "let %s := %s in\n%s" % (name, t, step(rest, env.bind(name, ty), locals_))
            if isinstance(s, ast.Return):
                b, t, ty = cexpr(fn, s.value, env)
                if b or ty != NODE:
                    raise Unsupported("return in loop")
                return "LReturn (Some %s)" % t
            if isinstance(s, ast.If):
                b, c, _ = ctruth(fn, s.test, env)
                if b:
                    raise Unsupported("raising test")
                # variables assigned in the branches that are loop state flow out of the if
                ta = step(list(s.body) + rest, env, locals_)
                tb = step(list(s.orelse) + rest, env, locals_)
                return "if %s\nthen %s\nelse %s" % (c, ta, tb)
            raise Unsupported("loop statement %s" % type(s).__name__)

        sty = coq_ty(TTup(*[env.vars[v][1] for v in state]))
        body = step(list(wh.body), env, [])
        # variables set before the loop that the body reads but never assigns
        state_coq = [env.vars[v][0] for v in state]
        extra = [(c, t) for (c, t) in env.order
                 if c not in state_coq and c != "leafset_bitmask"
                 and re.search(r"(?<![A-Za-z_0-9'])%s(?![A-Za-z_0-9'])" % re.escape(c), body)]
        fn.defs.append("Definition Tree_mrca_step (enc : dict Z) (leafset_bitmask : Z) %s(s_ : %s) : loop_step %s (option node) :=\n"
                       "let '%s := s_ in\n%s." % ("".join("(%s : %s) " % (c, coq_ty(t)) for c, t in extra), sty, sty,
                                                  tup_pat(state), body))
        return "py_loop fuel (Tree_mrca_step enc leafset_bitmask%s) %s" % (
            "".join(" " + c for c, _ in extra), tup_pat([env.vars[v][0] for v in state]))

    code = pre_code(list(pre), env, loop)
    for d in fn.defs:
        gen.out.append(d)
    gen.out.append("(* Tree.mrca: from the test of the start node's bitmask to the end *)\n"
                   "Definition Tree_mrca_descent (fuel : nat) (enc : dict Z) (leafset_bitmask : Z) (start_node : node) : res (option node) :=\n%s."
                   % code)


def qexpr(e, names):
    """a closed arithmetic expression over Q (nj_tree / upgma_tree formulas)"""
    if isinstance(e, ast.Constant) and isinstance(e.value, (int, float)) and not isinstance(e.value, bool):
        from fractions import Fraction
        f = Fraction(e.value)
        return "(%d # %d)" % (f.numerator, f.denominator)
    if isinstance(e, ast.BinOp):
        ops = {"Add": "+", "Sub": "-", "Mult": "*", "Div": "/"}
        op = type(e.op).__name__
        if op not in ops:
            raise Unsupported("operator %s" % op)
        return "(%s %s %s)" % (qexpr(e.left, names), ops[op], qexpr(e.right, names))
    key = ast.unparse(e)
    if key in names:
        return names[key]
    raise Unsupported("formula atom %s" % key)


def find_assign(fdef, target_text, nth=0):
    hits = []
    for n in ast.walk(fdef):
        if isinstance(n, ast.Assign) and len(n.targets) == 1 and ast.unparse(n.targets[0]) == target_text:
            hits.append(n)
    hits.sort(key=lambda n: n.lineno)
    if len(hits) <= nth:
        raise Unsupported("assignment to %s (#%d) not found" % (target_text, nth))
    return hits[nth]


def find_compare(fdef, left_text):
    for n in ast.walk(fdef):
        if isinstance(n, ast.Compare) and ast.unparse(n.left) == left_text and len(n.ops) == 1:
            return n
    raise Unsupported("comparison of %s not found" % left_text)


def formulas(gen, nj, upgma):
    out = []

    def auto(e, arity):
        """the local variables of a formula, in order of first occurrence (their names do not matter)"""
        seen = []
        for n in ast.walk(e):
            pass
        def walk(x):
            if isinstance(x, ast.Name):
                if x.id not in seen:
                    seen.append(x.id)
            for c in ast.iter_child_nodes(x):
                walk(c)
        walk(e)
        if len(seen) != arity:
            raise Unsupported("formula %s has %d variables, expected %d" % (ast.unparse(e), len(seen), arity))
        return seen, {n: n for n in seen}

    def define(name, params, e, names):
        if names is None:
            params, names = auto(e, len(params))
        out.append("Definition %s %s: Q := %s%%Q." % (name, "".join("(%s : Q) " % p for p in params), qexpr(e, names)))

    # --- nj_tree ---
    v1 = find_assign(nj, "v1", 0)       # (n - 2) * nd1._nj_distances[nd2]
    qv = find_assign(nj, "qvalue")
    define("NJ_qvalue", ["n", "d", "x1", "x2"], qv.value,
           {"v1": qexpr(v1.value, {"n": "n", "nd1._nj_distances[nd2]": "d"}), "nd1._nj_xsub": "x1", "nd2._nj_xsub": "x2"})
    cmpq = find_compare(nj, "qvalue")
    if not isinstance(cmpq.ops[0], ast.Lt) or ast.unparse(cmpq.comparators[0]) != "min_q":
        raise Unsupported("nj_tree: selection comparison is not `qvalue < min_q`")
    out.append("Definition NJ_better (qvalue min_q : Q) : bool := if Qlt_le_dec qvalue min_q then true else false.")
    dist = find_assign(nj, "dist")      # 0.5 * (v1 - v3), v1 = sum of node._nj_distances[node_to_join], v3 = d(j0, j1)
    define("NJ_dist", ["v1", "v3"], dist.value, None)
    v1b = find_assign(nj, "v1", 2)      # 0.5 * d(j0, j1)
    v4 = find_assign(nj, "v4")
    df = find_assign(nj, "delta_f")
    dg = find_assign(nj, "delta_g")
    nm = {"nodes_to_join[0]._nj_distances[nodes_to_join[1]]": "d", "nodes_to_join[0]._nj_xsub": "x0",
          "nodes_to_join[1]._nj_xsub": "x1", "n": "n"}
    f_text = qexpr(df.value, {"v1": qexpr(v1b.value, nm), "v4": qexpr(v4.value, nm)})
    out.append("Definition NJ_delta_f (n d x0 x1 : Q) : Q := %s%%Q." % f_text)
    out.append("Definition NJ_delta_g (n d x0 x1 : Q) : Q := %s%%Q." % qexpr(dg.value, dict(nm, delta_f="(NJ_delta_f n d x0 x1)")))
    # loop guard `while n > 1`, branch `if n > 2`, the two-node case `d / 2`
    def int_guard(fdef, kind, name):
        for nd in ast.walk(fdef):
            if isinstance(nd, kind) and isinstance(nd.test, ast.Compare) and len(nd.test.ops) == 1 \
                    and isinstance(nd.test.left, ast.Name) and nd.test.left.id == name \
                    and isinstance(nd.test.comparators[0], ast.Constant) and isinstance(nd.test.comparators[0].value, int):
                sym = {"Gt": ">?", "Lt": "<?", "GtE": ">=?", "LtE": "<=?"}.get(type(nd.test.ops[0]).__name__)
                if sym is None:
                    raise Unsupported("guard operator")
                return "(%s %s %d)%%Z" % (name, sym, nd.test.comparators[0].value), nd
        raise Unsupported("guard on %s not found" % name)
    g, _ = int_guard(nj, ast.While, "n")
    out.append("Definition NJ_continue (n : Z) : bool := %s." % g)
    g, ifn = int_guard(nj, ast.If, "n")
    out.append("Definition NJ_general (n : Z) : bool := %s." % g)
    halves = [st for st in ifn.orelse if isinstance(st, ast.Assign) and ast.unparse(st.targets[0]).endswith(".edge.length")]
    if len(halves) != 2 or ast.unparse(halves[0].value) != ast.unparse(halves[1].value):
        raise Unsupported("nj_tree: two-node branch")
    define("NJ_half", ["d"], halves[0].value, None)
    # node._nj_xsub += dist ; for node_to_join in nodes_to_join: node._nj_xsub -= node_to_join._nj_distances[node]
    augs = sorted([nd for nd in ast.walk(nj) if isinstance(nd, ast.AugAssign) and ast.unparse(nd.target) == "node._nj_xsub"],
                  key=lambda nd: nd.lineno)
    expr, nb = "x", 0
    for a in augs:
        sym = {"Add": "+", "Sub": "-"}.get(type(a.op).__name__)
        if sym is None:
            raise Unsupported("xsub update operator")
        v = ast.unparse(a.value)
        if v == "dist":
            expr = "(%s %s dist)" % (expr, sym)
        elif v == "node_to_join._nj_distances[node]":
            # inside `for node_to_join in nodes_to_join` (a pair): once per joined node
            expr = "((%s %s b0) %s b1)" % (expr, sym, sym)
            nb += 1
        else:
            raise Unsupported("xsub update operand %s" % v)
    if nb != 1:
        raise Unsupported("nj_tree: xsub update shape")
    out.append("Definition NJ_xsub_update (x dist b0 b1 : Q) : Q := %s%%Q." % expr)
    # --- upgma_tree ---
    elen = find_assign(upgma, "elen")
    define("UPGMA_elen", ["min_distance"], elen.value, None)
    cmpd = find_compare(upgma, "d")
    if not isinstance(cmpd.ops[0], ast.Lt) or ast.unparse(cmpd.comparators[0]) != "min_distance":
        raise Unsupported("upgma_tree: selection comparison is not `d < min_distance`")
    out.append("Definition UPGMA_better (d min_distance : Q) : bool := if Qlt_le_dec d min_distance then true else false.")
    dd = find_assign(upgma, "d", 2)     # d1 / count
    define("UPGMA_avg", ["d1", "count"], dd.value, {"d1": "d1", "count": "count"})
    cl = find_assign(upgma, "node_to_join.edge.length")
    define("UPGMA_child_len", ["elen", "tip"], cl.value, {"elen": "elen", "node_to_join._upgma_distance_from_tip": "tip"})
    tp = find_assign(upgma, "new_node._upgma_distance_from_tip")
    define("UPGMA_tip", ["len", "tip"], tp.value,
           {"nodes_to_join[0].edge.length": "len", "nodes_to_join[0]._upgma_distance_from_tip": "tip"})
    acc = [nd for nd in ast.walk(upgma) if isinstance(nd, ast.AugAssign) and ast.unparse(nd.target) == "d1"]
    if len(acc) != 1 or not isinstance(acc[0].op, ast.Add):
        raise Unsupported("upgma_tree: d1 accumulation")
    define("UPGMA_acc", ["d1", "d2", "xc"], ast.BinOp(left=ast.Name(id="d1"), op=ast.Add(), right=acc[0].value), None)
    return out


HEADER = """(* GENERATED by py/dv/gen_pdm.py from calculate/phylogeneticdistance.py and
   datamodel/treemodel/_tree.py -- do not edit.  Meaning of the primitives: coq/Model/C14GenPrims.v *)
From Coq Require Import ZArith QArith List Bool.
From DV Require Import Model.PyPrims Model.Tree Model.C14Model Model.C14GenPrims Model.C14GenObj Model.C14GenMrcaPrims.
Import ListNotations.
Open Scope Z_scope.
Open Scope bool_scope.

Section Pdm.
Variable G : node.          (* the object graph: the tree's seed node *)
Variable none_key : Z.      (* Python's None where a taxon is used as key / element / reference *)
"""


def generate(repo):
    gen = Gen(repo)
    pd = gen.parse("calculate/phylogeneticdistance.py")
    tr = gen.parse("datamodel/treemodel/_tree.py")
    cls = "PhylogeneticDistanceMatrix"
    # _mirror_lookups
    gen.method(gen.find(pd, cls, "_mirror_lookups"), "PDM__mirror_lookups", {"self": PDM}, ["self"])
    gen.procedures["_mirror_lookups"] = "PDM__mirror_lookups"
    # compile_from_tree
    gen.method(gen.find(pd, cls, "compile_from_tree"), "PDM_compile_from_tree", {"self": PDM, "tree": NODE}, ["self", "heap"],
               extra_state={"heap": ("heap_empty", HEAP)})
    # accessors
    gen.method(gen.find(pd, cls, "mrca"), "PDM_mrca", {"self": PDM, "taxon1": TAX, "taxon2": TAX}, ["self"], ret_hint=NREF)
    gen.method(gen.find(pd, cls, "patristic_distance"), "PDM_patristic_distance",
               {"self": PDM, "taxon1": TAX, "taxon2": TAX, "is_normalize_by_tree_size": BOOL}, ["self"], ret_hint=QT)
    gen.method(gen.find(pd, cls, "path_edge_count"), "PDM_path_edge_count",
               {"self": PDM, "taxon1": TAX, "taxon2": TAX, "is_normalize_by_tree_size": BOOL}, ["self"], ret_hint=QT)
    # the summary kernels, once per value of is_weighted_edge_distances (which selects the table and its type)
    for w, suffix in ((True, "_weighted"), (False, "_unweighted")):
        cs = {"is_weighted_edge_distances": w}
        gen.method(gen.find(pd, cls, "_get_distance_matrix_and_normalization_factor", cs),
                   "PDM__get_distance_matrix_and_normalization_factor" + suffix,
                   {"self": PDM, "is_normalize_by_tree_size": BOOL}, ["self"], ret_hint=("any",), consts=cs,
                   comment=" with is_weighted_edge_distances=%s" % w)
        gen.method(gen.find(pd, cls, "_calculate_mean_pairwise_distance", cs),
                   "PDM__calculate_mean_pairwise_distance" + suffix,
                   {"self": PDM, "comparison_regime": TList(TTup(TAX, TAX)), "is_normalize_by_tree_size": BOOL}, ["self"],
                   ret_hint=QT, consts=cs, comment=" with is_weighted_edge_distances=%s" % w)
        gen.method(gen.find(pd, cls, "_calculate_mean_nearest_taxon_distance", cs),
                   "PDM__calculate_mean_nearest_taxon_distance" + suffix,
                   {"self": PDM, "comparison_regime": TRow(TList(TAX)), "is_normalize_by_tree_size": BOOL}, ["self"],
                   ret_hint=QT, consts=cs, comment=" with is_weighted_edge_distances=%s" % w)
    # Tree.mrca
    mrca_loop(gen, gen.find(tr, "Tree", "mrca"))
    text = HEADER + "\n" + "\n\n".join(gen.out) + "\n\nEnd Pdm.\n\n"
    # Tree.mrca: argument handling and refresh; treemeasure.patristic_distance (py/dv/c14_mrcagen.py)
    from dv import c14_mrcagen
    try:
        tm = gen.parse("calculate/treemeasure.py")
        pdist = [n for n in tm.body if isinstance(n, ast.FunctionDef) and n.name == "patristic_distance"]
        if len(pdist) != 1:
            raise Unsupported("treemeasure.patristic_distance not found")
        text += (c14_mrcagen.compile_mrca_head(gen.find(tr, "Tree", "mrca")) + "\n\n"
                 + c14_mrcagen.compile_patristic(pdist[0]) + "\n\n")
    except c14_mrcagen.Unsupported as e:
        raise Unsupported("Tree.mrca / patristic_distance: %s" % e)
    text += "(* formulas of nj_tree / upgma_tree *)\n" + "\n".join(
        formulas(gen, gen.find(pd, cls, "nj_tree"), gen.find(pd, cls, "upgma_tree"))) + "\n"
    # the main loops of upgma_tree / nj_tree as object-graph programs (py/dv/c14_objgen.py)
    from dv import c14_objgen
    try:
        text += ("\n(* upgma_tree / nj_tree from `node_pool = []` on; original_dmatrix = the table the method selects,\n"
                 "   mapped_taxa = list(self._mapped_taxa) in this process's iteration order *)\n"
                 "Section TreeBuilders.\nVariable none_key : Z.\n\n"
                 + c14_objgen.compile_tree_builder(gen.find(pd, cls, "upgma_tree"), "PDM_upgma_tree") + "\n\n"
                 + c14_objgen.compile_tree_builder(gen.find(pd, cls, "nj_tree"), "PDM_nj_tree") + "\n\nEnd TreeBuilders.\n")
    except c14_objgen.Unsupported as e:
        raise Unsupported("tree builders: %s" % e)
    return text


if __name__ == "__main__":
    import sys
    print(generate(sys.argv[1] if len(sys.argv) > 1 else "/repo"))
