#!/bin/bash
# tools/wrapup.sh Cxx [seed-id ...] : quick check on the unchanged tree + the named seeds; one summary line each
cd "$(dirname "$0")/.." || exit 2
P=$1; shift
tools/runall.sh quick $P | tail -1
for s in "$@"; do
  tools/seedtest.sh $s $P > /var/tmp/wrap-$s.log 2>&1
  c=$(grep -c "^VIOLATION" /var/tmp/wrap-$s.log); n=$(grep "^VIOLATION" /var/tmp/wrap-$s.log | grep -c "no-failing-input-found")
  echo "$s: $(grep 'demo exit' /var/tmp/wrap-$s.log) | violations=$c nfif=$n | $(grep 'check exit' /var/tmp/wrap-$s.log)"
done
