#!/bin/bash
# tools/commitprop.sh Cxx "message"  : stage only that property's source files and commit
cd "$(dirname "$0")/.." || exit 2
P=$1; shift
p=$(echo $P | tr 'A-Z' 'a-z')
git add -- $(ls coq/Model/$P*.v coq/Proofs/$P*.v coq/Props/$P.v py/dv/$p.py py/dv/${p}_*.py manifest/$P.json evidence/$P.json 2>/dev/null)
git commit -qm "$*" && echo committed
