#!/bin/bash
# tools/runall.sh [tier] C01 C02 ...   -> one summary line per property
cd "$(dirname "$0")/.." || exit 2
T=${1:-quick}; shift
for p in "$@"; do
  s=$(date +%s)
  ./check $p --tier $T > /var/tmp/runall-$p.log 2>&1; rc=$?
  e=$(( $(date +%s) - s ))
  echo "$p rc=$rc ${e}s  $(grep -c '^VIOLATION' /var/tmp/runall-$p.log) viol, $(grep -c '^KNOWN-FINDING' /var/tmp/runall-$p.log) known | $(tail -1 /var/tmp/runall-$p.log | cut -c1-150)"
done
