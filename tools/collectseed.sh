#!/bin/bash
# tools/collectseed.sh Cxx : round-3 seeds: /tmp/seed-Cxx/out/{1,2} -> seeded/Cxx-5, Cxx-6; confirm + check; remove the worktree
cd "$(dirname "$0")/.." || exit 2
P=$1
for k in 1 2; do
  n=$((k+${SEEDBASE:-4})); d=seeded/$P-$n
  [ -d /tmp/seed-$P/out/$k ] || { echo "no out/$k"; continue; }
  mkdir -p $d && cp /tmp/seed-$P/out/$k/{patch.diff,demo.py,meta.json} $d/ 2>/dev/null
  echo "##### $P-$n"; tools/seedtest.sh $P-$n $P
done
git -C /repo worktree remove --force /tmp/seed-$P && echo "worktree removed"
