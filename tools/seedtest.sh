#!/bin/bash
# tools/seedtest.sh <seed-dir-name under seeded/> <Cxx> [--inrepo]
# Confirms the seeded change (demo passes without, fails with) and runs ./check Cxx against it.
# Default: scratch copy under /var/tmp + DV_REPO (safe while other work uses /repo).
# --inrepo: git -C /repo apply, run, git -C /repo checkout -- .   (the brief's protocol)
set -u
cd "$(dirname "$0")/.." || exit 2
S=seeded/$1; P=$2; MODE=${3:-scratch}
export PYTHONHASHSEED=0
if [ "$MODE" = "--inrepo" ]; then
  R=/repo
  git -C /repo diff --quiet || { echo "/repo has local changes"; exit 2; }
else
  R=/var/tmp/dv-seed-$1; rm -rf $R; mkdir -p $R; cp -r /repo/src $R/src
  (cd $R && git init -q . 2>/dev/null)
fi
echo "== demo on unchanged library"; PYTHONPATH=/repo/src /venv/bin/python $S/demo.py 2>/dev/null | tail -2; A=${PIPESTATUS[0]}
if [ "$MODE" = "--inrepo" ]; then git -C /repo apply $(pwd)/$S/patch.diff || exit 2; else (cd $R && git apply $(pwd)/../verif/$S/patch.diff 2>/dev/null || patch -p1 -s < /verif/$S/patch.diff) || exit 2; fi
echo "== demo on changed library"; PYTHONPATH=$R/src /venv/bin/python $S/demo.py 2>/dev/null | tail -2; B=${PIPESTATUS[0]}
echo "demo exit: unchanged=$A changed=$B"
echo "== ./check $P against the change"
cp evidence/$P.json /var/tmp/evidence-$P.json.keep 2>/dev/null   # evidence must only ever come from runs on the unchanged tree
if [ "$MODE" = "--inrepo" ]; then ./check $P --tier quick > /var/tmp/seedrun-$1.log 2>&1; C=$?; git -C /repo checkout -- .; else DV_REPO=$R ./check $P --tier quick > /var/tmp/seedrun-$1.log 2>&1; C=$?; rm -rf $R; fi
grep -E "^VIOLATION|^KNOWN|^$P " /var/tmp/seedrun-$1.log | head -8
echo "check exit=$C"
if [ -f /var/tmp/evidence-$P.json.keep ]; then mv /var/tmp/evidence-$P.json.keep evidence/$P.json; fi
# restore Gen from the real tree
PYTHONPATH=/repo/src:py /venv/bin/python - >/dev/null 2>&1 <<PYEOF
from dv import core
with core.Lock():
    core.regenerate_gen()
PYEOF
